(* Proofs/CopyLoad.v — every parsed document is consistent: adopting any of its nodes again changes nothing, so a deep copy
   of it is the very same tree. *)
From AY Require Import Model.Loader Model.Eval Proofs.NodeInd Proofs.FlagsLemmas Proofs.LoaderLemmas Proofs.CopyLemmas.

Lemma with_flags_id n : with_flags n (nflags n) = n.
Proof. destruct n; reflexivity. Qed.

Lemma ob_eqb_refl o : ob_eqb o o = true.
Proof. destruct o as [[]|]; reflexivity. Qed.

(* the flags a loaded child carries are exactly what its parent would propagate: nothing to fix *)
Lemma pc_flags_loaded c inh t f k x :
  let kw := child_kwargs (Comp k f x []) in
  k <> CStream ->
  pc_flags f (if Facts.default_delete k then Some true else f_idel f) (own_flags c inh kw t) = (own_flags c inh kw t, false).
Proof.
  intros kw Hk. unfold pc_flags, kw, own_flags.
  assert (E : child_kwargs (Comp k f x []) =
              mkCK true (match f_del f with Some b => Some b | None => if Facts.default_delete k then Some true else f_idel f end)
                        (match f_new f with Some b => Some b | None => f_inew f end)
                        (match f_safe f with Some b => Some b | None => f_isafe f end)).
  { destruct k; try reflexivity. congruence. }
  rewrite E. cbn [ck_any ck_idel ck_inew ck_isafe f_idel f_inew f_isafe f_del f_new f_safe set_idel set_inew set_isafe].
  destruct (f_del f) as [d|]; destruct (f_new f) as [w|]; destruct (f_safe f) as [s|]; cbn [negb andb orb];
    rewrite ?ob_eqb_refl; cbn [negb andb orb f_idel f_inew f_isafe]; rewrite ?ob_eqb_refl; reflexivity.
Qed.

Lemma prop_as_loaded : forall y c inh kw, prop_as (nflags (load c inh kw y)) (load c inh kw y) = load c inh kw y.
Proof.
  destruct y as [t v|t l|t l]; intros c inh kw.
  - reflexivity.
  - rewrite load_YM. cbn [nflags]. rewrite prop_as_comp. destruct (prop_stops _); [reflexivity|]. f_equal.
    rewrite map_map. cbn [fst snd]. apply map_ext. intros [k x]. cbn [fst snd]. f_equal.
    unfold prop_child.
    assert (E : nflags (load c (inh_prio inh t) (child_kwargs (Comp CDict (own_flags c inh kw t) SNone [])) x)
                = own_flags c (inh_prio inh t) (child_kwargs (Comp CDict (own_flags c inh kw t) SNone [])) (match x with YS t0 _ | YM t0 _ | YQ t0 _ => t0 end)).
    { destruct x; [reflexivity|rewrite load_YM; reflexivity|rewrite load_YQ; reflexivity]. }
    rewrite E. change (if Facts.default_delete CDict then Some true else f_idel (own_flags c inh kw t)) with
      (if Facts.default_delete CDict then Some true else f_idel (own_flags c inh kw t)).
    rewrite (pc_flags_loaded c (inh_prio inh t) _ (own_flags c inh kw t) CDict SNone) by discriminate.
    cbn [fst snd]. rewrite <- E. apply with_flags_id.
  - rewrite load_YQ. cbn [nflags]. rewrite prop_as_comp. destruct (prop_stops _); [reflexivity|]. f_equal.
    generalize 0%Z. induction l as [|x r IH]; intro i; [reflexivity|]. cbn [load_list map fst snd]. f_equal; [|apply IH]. f_equal.
    unfold prop_child.
    assert (E : nflags (load c (inh_prio inh t) (child_kwargs (Comp CList (own_flags c inh kw t) SNone [])) x)
                = own_flags c (inh_prio inh t) (child_kwargs (Comp CList (own_flags c inh kw t) SNone [])) (match x with YS t0 _ | YM t0 _ | YQ t0 _ => t0 end)).
    { destruct x; [reflexivity|rewrite load_YM; reflexivity|rewrite load_YQ; reflexivity]. }
    rewrite E.
    rewrite (pc_flags_loaded c (inh_prio inh t) _ (own_flags c inh kw t) CList SNone) by discriminate.
    cbn [fst snd]. rewrite <- E. apply with_flags_id.
Qed.

Lemma adopt_loaded y c inh k f x :
  k <> CStream ->
  adopt (child_kwargs (Comp k f x [])) (load c inh (child_kwargs (Comp k f x [])) y) = load c inh (child_kwargs (Comp k f x [])) y.
Proof.
  intros Hk. set (kw := child_kwargs (Comp k f x [])).
  assert (Hany : ck_any kw = true) by (unfold kw; destruct k; try reflexivity; congruence).
  unfold adopt. rewrite Hany.
  assert (E : nflags (load c inh kw y) = own_flags c inh kw (match y with YS t0 _ | YM t0 _ | YQ t0 _ => t0 end)).
  { destruct y; [reflexivity|rewrite load_YM; reflexivity|rewrite load_YQ; reflexivity]. }
  assert (Ea : adopt_flags kw (nflags (load c inh kw y)) = nflags (load c inh kw y)).
  { rewrite E. unfold adopt_flags, own_flags. rewrite Hany. cbn [set_idel set_inew set_isafe f_isafe].
    destruct (ob_eqb (ck_isafe kw) (Some false)); reflexivity. }
  rewrite Ea. apply prop_as_loaded.
Qed.

Theorem load_consistent : forall y c inh kw, Consistent (load c inh kw y).
Proof.
  induction y as [t v|t l IH|t l IH] using ynode_ind'; intros c inh kw.
  - constructor.
  - rewrite load_YM. constructor. rewrite Forall_forall. intros [k n] Hin. apply in_map_iff in Hin as ([k0 x] & [= <- <-] & Hin).
    cbn [fst snd]. rewrite Forall_forall in IH. split; [apply adopt_loaded; discriminate|apply (IH _ Hin)].
  - rewrite load_YQ. constructor. generalize 0%Z. induction IH as [|x r Hx Hr IHr]; intro i; [constructor|].
    cbn [load_list]. constructor; [|apply IHr]. cbn [snd]. split; [apply adopt_loaded; discriminate|apply Hx].
Qed.

Theorem parsed_copy_exact c y : recopy (load_doc c y) = load_doc c y.
Proof. apply recopy_consistent, load_consistent. Qed.
