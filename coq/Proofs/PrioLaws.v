(* Proofs/PrioLaws.v — merge laws of the prioritised update (C15 for documents with priority tags): merging a value with itself
   changes nothing; repeating the last document changes nothing. *)
From AY Require Import Model.Merge Spec.UpdateP Proofs.NodeInd Proofs.MergePlain Proofs.Laws Proofs.MergeNotNew Proofs.MergeGen
  Proofs.MergePrio Proofs.PrioPath.

Lemma aset_same {V} k (v : V) l : aget k l = Some v -> aset k v l = l.
Proof.
  induction l as [|[k' v'] r IH]; cbn; intro H; [discriminate|].
  destruct (key_eqb k k') eqn:E; [apply key_eqb_eq in E; inversion H; subst; reflexivity|]. now rewrite IH.
Qed.

(* a pass over entries that are all already present with a value the entry does not change is the identity *)
Lemma updp_go_fixed : forall kv acc,
  Forall (fun kc => exists w, aget (fst kc) acc = Some w /\ upd_p w (snd kc) = w) kv -> updp_go kv acc = acc.
Proof.
  induction kv as [|[k v] rest IH]; intros acc HF; cbn [updp_go]; [reflexivity|].
  inversion HF as [|? ? (w & Ea & Eu) HF']; subst. cbn [fst snd] in *.
  rewrite Ea, Eu, (aset_same k w acc Ea). apply IH. exact HF'.
Qed.

Lemma upd_p_self : forall v, pwf v -> upd_p v v = v.
Proof.
  induction v as [p s|p kv IH] using pp_ind'; intro Hw.
  - cbn. destruct (p >? p); reflexivity.
  - rewrite upd_p_DD. inversion Hw as [|? ? Hnd HF]; subst.
    assert (E : (if p >? p then p else p) = p) by (destruct (p >? p); reflexivity). rewrite E. f_equal.
    apply updp_go_fixed. rewrite Forall_forall. intros [k c] Hin. cbn [fst snd].
    exists c. split; [apply In_aget; assumption|].
    rewrite Forall_forall in IH, HF. apply (IH (k, c) Hin). apply (HF (k, c) Hin).
Qed.

Theorem upd_p_idem : forall b a, pwf b -> upd_p (upd_p a b) b = upd_p a b.
Proof.
  induction b as [pn vn|pn kv IH] using pp_ind'; intros a Hw.
  - rewrite (upd_p_other a) by (left; exact I). cbn [ppri].
    destruct (ppri a >? pn) eqn:E.
    + rewrite upd_p_other by (left; exact I). cbn [ppri]. now rewrite E.
    + cbn. destruct (pn >? pn); reflexivity.
  - destruct a as [po vo|po okv].
    + rewrite (upd_p_other (PPS po vo)) by (right; exact I). cbn [ppri].
      destruct (po >? pn) eqn:E.
      * rewrite upd_p_other by (right; exact I). cbn [ppri]. now rewrite E.
      * apply upd_p_self. exact Hw.
    + rewrite !upd_p_DD. inversion Hw as [|? ? Hnd HF]; subst.
      assert (E : (if (if po >? pn then po else pn) >? pn then (if po >? pn then po else pn) else pn) = (if po >? pn then po else pn)).
      { destruct (po >? pn) eqn:E1; [now rewrite E1|]. destruct (pn >? pn); reflexivity. }
      rewrite E. f_equal.
      apply updp_go_fixed. rewrite Forall_forall. intros [k c] Hin. cbn [fst snd].
      rewrite (updp_go_get kv okv k Hnd), (In_aget k c kv Hnd Hin).
      rewrite Forall_forall in IH, HF.
      destruct (aget k okv) as [ov|]; cbn [wr].
      * eexists. split; [reflexivity|]. apply (IH (k, c) Hin). apply (HF (k, c) Hin).
      * exists c. split; [reflexivity|]. apply upd_p_self. apply (HF (k, c) Hin).
Qed.

Lemma fold_left_snoc {A B} (f : A -> B -> A) l x a : fold_left f (l ++ [x]) a = f (fold_left f l a) x.
Proof. rewrite fold_left_app. reflexivity. Qed.

Lemma OldZ_pwf : forall n, OldZ n -> pwf (perase n).
Proof.
  induction n as [k f v|k f x ch IH] using node_ind'; intro H.
  - constructor.
  - inversion H as [|f0 x0 ch0 HO HF Hnd]; subst. rewrite perase_comp. constructor.
    + unfold pch. rewrite map_map. exact Hnd.
    + unfold pch. clear H Hnd. induction IH as [|kc r Hkc Hr IHr]; cbn [map]; [constructor|]. inversion HF; subst. constructor; cbn [snd]; auto.
Qed.

(* repeating the last document of a history of prioritised mapping documents changes neither a value nor a priority *)
Theorem repeat_last_prio e s0 sts last :
  Forall NewZ (s0 :: sts ++ [last]) -> forallb is_dictk (s0 :: sts ++ [last]) = true ->
  exists n m, flatten e (s0 :: sts ++ [last]) = Ok n /\ flatten e (s0 :: (sts ++ [last]) ++ [last]) = Ok m /\ perase m = perase n.
Proof.
  intros HF HD.
  assert (Hw : pwf (perase last)).
  { apply OldZ_pwf, NewZ_oldz. inversion HF as [|? ? _ HR]; subst. apply Forall_app in HR. destruct HR as [_ HL]. inversion HL; subst. assumption. }
  destruct (flatten_prio e s0 (sts ++ [last]) HF HD) as (n & En & Pn).
  assert (HF2 : Forall NewZ (s0 :: (sts ++ [last]) ++ [last])).
  { inversion HF as [|? ? H0 HR]; subst. constructor; [exact H0|]. apply Forall_app. split; [exact HR|].
    apply Forall_app in HR. destruct HR as [_ HL]. exact HL. }
  assert (HD2 : forallb is_dictk (s0 :: (sts ++ [last]) ++ [last]) = true).
  { cbn [forallb] in *. apply andb_true_iff in HD. destruct HD as [A B]. rewrite A. cbn [andb].
    rewrite forallb_app, B. rewrite forallb_app in B. apply andb_true_iff in B. destruct B as [_ C]. exact C. }
  destruct (flatten_prio e s0 ((sts ++ [last]) ++ [last]) HF2 HD2) as (m & Em & Pm).
  exists n, m. split; [exact En|]. split; [exact Em|].
  rewrite Pm, Pn, !map_app. cbn [map]. rewrite !fold_left_snoc. apply upd_p_idem. exact Hw.
Qed.
