(* Proofs/PrioLaws.v — merge laws of the prioritised update (C15 for documents with priority tags): merging a value with itself
   changes nothing; repeating the last document changes nothing. *)
From AY Require Import Model.Merge Spec.UpdateP Proofs.NodeInd Proofs.MergePlain Proofs.Laws Proofs.MergeNotNew Proofs.MergeGen
  Proofs.MergePrio Proofs.PrioPath.

Lemma aset_same {V} k (v : V) l : aget k l = Some v -> aset k v l = l.
Proof.
  induction l as [|[k' v'] r IH]; cbn; intro H; [discriminate|].
  destruct (key_eqb k k') eqn:E; [apply key_eqb_eq in E; inversion H; subst; reflexivity|]. now rewrite IH.
Qed.

(* a pass over entries that are all already present with a value the entry does not change is the identity *)
Lemma updp_go_fixed : forall kv acc,
  Forall (fun kc => exists w, aget (fst kc) acc = Some w /\ upd_p w (snd kc) = w) kv -> updp_go kv acc = acc.
Proof.
  induction kv as [|[k v] rest IH]; intros acc HF; cbn [updp_go]; [reflexivity|].
  inversion HF as [|? ? (w & Ea & Eu) HF']; subst. cbn [fst snd] in *.
  rewrite Ea, Eu, (aset_same k w acc Ea). apply IH. exact HF'.
Qed.

Lemma upd_p_self : forall v, pwf v -> upd_p v v = v.
Proof.
  induction v as [p s|p kv IH] using pp_ind'; intro Hw.
  - cbn. destruct (p >? p); reflexivity.
  - rewrite upd_p_DD. inversion Hw as [|? ? Hnd HF]; subst.
    assert (E : (if p >? p then p else p) = p) by (destruct (p >? p); reflexivity). rewrite E. f_equal.
    apply updp_go_fixed. rewrite Forall_forall. intros [k c] Hin. cbn [fst snd].
    exists c. split; [apply In_aget; assumption|].
    rewrite Forall_forall in IH, HF. apply (IH (k, c) Hin). apply (HF (k, c) Hin).
Qed.

Theorem upd_p_idem : forall b a, pwf b -> upd_p (upd_p a b) b = upd_p a b.
Proof.
  induction b as [pn vn|pn kv IH] using pp_ind'; intros a Hw.
  - rewrite (upd_p_other a) by (left; exact I). cbn [ppri].
    destruct (ppri a >? pn) eqn:E.
    + rewrite upd_p_other by (left; exact I). cbn [ppri]. now rewrite E.
    + cbn. destruct (pn >? pn); reflexivity.
  - destruct a as [po vo|po okv].
    + rewrite (upd_p_other (PPS po vo)) by (right; exact I). cbn [ppri].
      destruct (po >? pn) eqn:E.
      * rewrite upd_p_other by (right; exact I). cbn [ppri]. now rewrite E.
      * apply upd_p_self. exact Hw.
    + rewrite !upd_p_DD. inversion Hw as [|? ? Hnd HF]; subst.
      assert (E : (if (if po >? pn then po else pn) >? pn then (if po >? pn then po else pn) else pn) = (if po >? pn then po else pn)).
      { destruct (po >? pn) eqn:E1; [now rewrite E1|]. destruct (pn >? pn); reflexivity. }
      rewrite E. f_equal.
      apply updp_go_fixed. rewrite Forall_forall. intros [k c] Hin. cbn [fst snd].
      rewrite (updp_go_get kv okv k Hnd), (In_aget k c kv Hnd Hin).
      rewrite Forall_forall in IH, HF.
      destruct (aget k okv) as [ov|]; cbn [wr].
      * eexists. split; [reflexivity|]. apply (IH (k, c) Hin). apply (HF (k, c) Hin).
      * exists c. split; [reflexivity|]. apply upd_p_self. apply (HF (k, c) Hin).
Qed.

Lemma fold_left_snoc {A B} (f : A -> B -> A) l x a : fold_left f (l ++ [x]) a = f (fold_left f l a) x.
Proof. rewrite fold_left_app. reflexivity. Qed.

Lemma OldZ_pwf : forall n, OldZ n -> pwf (perase n).
Proof.
  induction n as [k f v|k f x ch IH] using node_ind'; intro H.
  - constructor.
  - inversion H as [|f0 x0 ch0 HO HF Hnd|f0 x0 ch0 HO HF HK]; subst; [|rewrite perase_list; constructor]. rewrite perase_dict. constructor.
    + unfold pch. rewrite map_map. exact Hnd.
    + unfold pch. clear H Hnd. induction IH as [|kc r Hkc Hr IHr]; cbn [map]; [constructor|]. inversion HF; subst. constructor; cbn [snd]; auto.
Qed.

(* ---------- the side condition along histories ---------- *)
Lemma hcompat_app : forall l1 l2 d0, hcompat d0 (l1 ++ l2) <-> hcompat d0 l1 /\ hcompat (fold_left upd_p l1 d0) l2.
Proof.
  induction l1 as [|d r IH]; intros l2 d0; cbn [app hcompat fold_left]; [tauto|]. rewrite IH. tauto.
Qed.

Lemma lcompat_refl : forall d, pwf d -> lcompat d d.
Proof.
  induction d as [p [v|l]|p kv IH] using pp_ind'; intro Hw; [exact I|exact I|].
  inversion Hw as [|? ? Hnd HF]; subst. apply lcompat_DD. rewrite Forall_forall in IH, HF |- *. intros [k v] Hin. cbn [fst snd].
  rewrite (In_aget k v kv Hnd Hin). apply (IH (k, v) Hin), (HF (k, v) Hin).
Qed.

Lemma lcompat_upd_same : forall b a, pwf b -> lcompat a b -> lcompat (upd_p a b) b.
Proof.
  induction b as [pn [vn|ln]|pn kv IH] using pp_ind'; intros a Hw Hc.
  - exact I.
  - rewrite upd_p_other by (left; exact I). destruct (ppri a >? ppri (PPS pn (AL ln))); [exact Hc|exact I].
  - destruct a as [po [vo|lo]|po okv].
    + rewrite upd_p_other by (right; exact I). destruct (ppri (PPS po (AS vo)) >? ppri (PPD pn kv)); [exact Hc|apply lcompat_refl; exact Hw].
    + cbn in Hc. contradiction.
    + rewrite upd_p_DD. apply lcompat_DD. apply lcompat_DD in Hc. inversion Hw as [|? ? Hnd HF]; subst.
      rewrite Forall_forall in IH, HF, Hc |- *. intros [k v] Hin. cbn [fst snd].
      rewrite (updp_go_get kv okv k Hnd), (In_aget k v kv Hnd Hin).
      specialize (Hc (k, v) Hin). cbn [fst snd] in Hc.
      destruct (aget k okv) as [ov|]; cbn [wr].
      * apply (IH (k, v) Hin); [apply (HF (k, v) Hin)|exact Hc].
      * apply lcompat_refl, (HF (k, v) Hin).
Qed.

(* repeating the last document of a history of prioritised mapping documents changes neither a value nor a priority *)
Theorem repeat_last_prio e s0 sts last :
  Forall NewZ (s0 :: sts ++ [last]) -> forallb is_dictk (s0 :: sts ++ [last]) = true ->
  hcompat (perase s0) (map perase (sts ++ [last])) ->
  exists n m, flatten e (s0 :: sts ++ [last]) = Ok n /\ flatten e (s0 :: (sts ++ [last]) ++ [last]) = Ok m /\ perase m = perase n.
Proof.
  intros HF HD Hh.
  assert (Hw : pwf (perase last)).
  { apply OldZ_pwf, NewZ_oldz. inversion HF as [|? ? _ HR]; subst. apply Forall_app in HR. destruct HR as [_ HL]. inversion HL; subst. assumption. }
  destruct (flatten_prio e s0 (sts ++ [last]) HF HD Hh) as (n & En & Pn).
  assert (HF2 : Forall NewZ (s0 :: (sts ++ [last]) ++ [last])).
  { inversion HF as [|? ? H0 HR]; subst. constructor; [exact H0|]. apply Forall_app. split; [exact HR|].
    apply Forall_app in HR. destruct HR as [_ HL]. exact HL. }
  assert (HD2 : forallb is_dictk (s0 :: (sts ++ [last]) ++ [last]) = true).
  { cbn [forallb] in *. apply andb_true_iff in HD. destruct HD as [A B]. rewrite A. cbn [andb].
    rewrite forallb_app, B. rewrite forallb_app in B. apply andb_true_iff in B. destruct B as [_ C]. exact C. }
  assert (Hh2 : hcompat (perase s0) (map perase ((sts ++ [last]) ++ [last]))).
  { rewrite map_app. apply hcompat_app. split; [exact Hh|]. cbn [map hcompat]. split; [|exact I].
    rewrite map_app. cbn [map]. rewrite fold_left_snoc. apply lcompat_upd_same; [exact Hw|].
    rewrite map_app in Hh. apply hcompat_app in Hh. destruct Hh as [_ Hl]. cbn [map hcompat] in Hl. exact (proj1 Hl). }
  destruct (flatten_prio e s0 ((sts ++ [last]) ++ [last]) HF2 HD2 Hh2) as (m & Em & Pm).
  exists n, m. split; [exact En|]. split; [exact Em|].
  rewrite Pm, Pn, !map_app. cbn [map]. rewrite !fold_left_snoc. apply upd_p_idem. exact Hw.
Qed.

(* ---------- an empty mapping document, at any position, changes nothing below the root ---------- *)
Definition kids (d : pp) : list (key * pp) := match d with PPD _ kv => kv | PPS _ _ => [] end.

Lemma kids_upd_p a a' b : is_PPD a = true -> is_PPD a' = true -> is_PPD b = true -> kids a = kids a' -> kids (upd_p a b) = kids (upd_p a' b).
Proof. destruct a, a', b; try discriminate. intros _ _ _ E. cbn [kids] in E. subst. rewrite !upd_p_DD. reflexivity. Qed.

Lemma kids_fold : forall l a a', is_PPD a = true -> is_PPD a' = true -> forallb is_PPD l = true -> kids a = kids a' ->
  kids (fold_left upd_p l a) = kids (fold_left upd_p l a') /\ is_PPD (fold_left upd_p l a) = true.
Proof.
  induction l as [|b l IH]; intros a a' Ha Ha' Hl E; cbn [fold_left]; [auto|].
  cbn [forallb] in Hl. apply andb_true_iff in Hl. destruct Hl as [Hb Hl].
  apply IH; [apply upd_p_PPD; assumption|apply upd_p_PPD; assumption|exact Hl|apply kids_upd_p; assumption].
Qed.

Lemma kids_empty a p : is_PPD a = true -> kids (upd_p a (PPD p [])) = kids a /\ is_PPD (upd_p a (PPD p [])) = true.
Proof. destruct a; [discriminate|]. intros _. rewrite upd_p_DD. auto. Qed.

Theorem empty_doc_neutral_prio d0 l1 l2 p :
  is_PPD d0 = true -> forallb is_PPD l1 = true -> forallb is_PPD l2 = true ->
  kids (fold_left upd_p (l1 ++ PPD p [] :: l2) d0) = kids (fold_left upd_p (l1 ++ l2) d0).
Proof.
  intros H0 H1 H2. rewrite !fold_left_app. cbn [fold_left].
  destruct (kids_fold l1 d0 d0 H0 H0 H1 eq_refl) as [_ Ha].
  destruct (kids_empty (fold_left upd_p l1 d0) p Ha) as [Ek Hp].
  apply (kids_fold l2 _ _ Hp Ha H2 Ek).
Qed.

Lemma forallb_dictk_ppd : forall l, Forall NewZ l -> forallb is_dictk l = true -> forallb is_PPD (map perase l) = true.
Proof.
  induction l as [|n l IH]; intros HF HD; cbn [map forallb] in *; [reflexivity|].
  inversion HF as [|? ? Hn HF']; subst. apply andb_true_iff in HD. destruct HD as [A B].
  rewrite <- (is_dictk_perase n (NewZ_oldz _ Hn)), A. cbn [andb]. auto.
Qed.

(* an empty mapping document (any flags of the class) inserted after the first document changes no value and no priority below the root *)
Theorem empty_doc_neutral_flatten e s0 l1 l2 fE xE :
  Forall NewZ (s0 :: l1 ++ Comp CDict fE xE [] :: l2) -> forallb is_dictk (s0 :: l1 ++ l2) = true ->
  hcompat (perase s0) (map perase (l1 ++ Comp CDict fE xE [] :: l2)) -> hcompat (perase s0) (map perase (l1 ++ l2)) ->
  exists n m, flatten e (s0 :: l1 ++ Comp CDict fE xE [] :: l2) = Ok n /\ flatten e (s0 :: l1 ++ l2) = Ok m /\
              kids (perase n) = kids (perase m).
Proof.
  intros HF HD Hh Hh'.
  assert (HF' : Forall NewZ (s0 :: l1 ++ l2)).
  { inversion HF as [|? ? H0 HR]; subst. constructor; [exact H0|]. apply Forall_app in HR. destruct HR as [A B]. inversion B; subst. apply Forall_app. auto. }
  assert (HD' : forallb is_dictk (s0 :: l1 ++ Comp CDict fE xE [] :: l2) = true).
  { cbn [forallb] in *. apply andb_true_iff in HD. destruct HD as [A B]. rewrite A. cbn [andb]. rewrite forallb_app in *. apply andb_true_iff in B. destruct B as [B1 B2].
    rewrite B1. cbn [forallb andb is_dictk is_listk negb]. exact B2. }
  destruct (flatten_prio e s0 _ HF HD' Hh) as (n & En & Pn). destruct (flatten_prio e s0 _ HF' HD Hh') as (m & Em & Pm).
  exists n, m. split; [exact En|]. split; [exact Em|]. rewrite Pn, Pm, !map_app. cbn [map]. rewrite perase_dict. cbn [pch map].
  inversion HF' as [|? ? H0 HR]; subst. cbn [forallb] in HD. apply andb_true_iff in HD. destruct HD as [A B].
  apply Forall_app in HR. destruct HR as [R1 R2]. rewrite forallb_app in B. apply andb_true_iff in B. destruct B as [B1 B2].
  apply empty_doc_neutral_prio.
  - rewrite <- (is_dictk_perase s0 (NewZ_oldz _ H0)). exact A.
  - apply forallb_dictk_ppd; assumption.
  - apply forallb_dictk_ppd; assumption.
Qed.

(* the refinement does not look at safety marks, metadata or implicit flags: stages with the same priority image build the same image *)
Theorem same_image_same_result e s0 sts s0' sts' :
  Forall NewZ (s0 :: sts) -> Forall NewZ (s0' :: sts') -> forallb is_dictk (s0 :: sts) = true -> forallb is_dictk (s0' :: sts') = true ->
  map perase (s0 :: sts) = map perase (s0' :: sts') -> hcompat (perase s0) (map perase sts) ->
  exists n m, flatten e (s0 :: sts) = Ok n /\ flatten e (s0' :: sts') = Ok m /\ perase n = perase m.
Proof.
  intros HF HF' HD HD' E Hh.
  assert (Hh' : hcompat (perase s0') (map perase sts')) by (cbn [map] in E; injection E as E0 Er; now rewrite <- E0, <- Er).
  destruct (flatten_prio e s0 sts HF HD Hh) as (n & En & Pn). destruct (flatten_prio e s0' sts' HF' HD' Hh') as (m & Em & Pm).
  exists n, m. split; [exact En|]. split; [exact Em|]. cbn [map] in E. injection E as E0 Er. now rewrite Pn, Pm, E0, Er.
Qed.

(* ---------- the side condition, document by document ---------- *)
(* what is compatible with two values is compatible with their update *)
Lemma lcompat_upd_l : forall c a b, pwf b -> lcompat a c -> lcompat b c -> lcompat (upd_p a b) c.
Proof.
  induction c as [pc [vc|lc]|pc kvc IH] using pp_ind'; intros a b Wb Ha Hb.
  - exact I.
  - destruct b as [pn vn|pn kvb]; [|cbn in Hb; contradiction].
    rewrite upd_p_other by (left; exact I). destruct (ppri a >? ppri (PPS pn vn)); assumption.
  - destruct b as [pn vn|pn kvb].
    + rewrite upd_p_other by (left; exact I). destruct (ppri a >? ppri (PPS pn vn)); assumption.
    + destruct a as [po vo|po kva].
      * rewrite upd_p_other by (right; exact I). destruct (ppri (PPS po vo) >? ppri (PPD pn kvb)); assumption.
      * rewrite upd_p_DD. apply lcompat_DD. apply lcompat_DD in Ha. apply lcompat_DD in Hb. inversion Wb as [|? ? Hnd HF]; subst.
        rewrite Forall_forall in IH, Ha, Hb |- *. intros [k ck] Hin. cbn [fst snd].
        rewrite (updp_go_get kvb kva k Hnd).
        specialize (Ha (k, ck) Hin). specialize (Hb (k, ck) Hin). cbn [fst snd] in Ha, Hb.
        destruct (aget k kva) as [ak|], (aget k kvb) as [bk|] eqn:Eb; cbn [wr]; auto.
        apply (IH (k, ck) Hin); auto. exact (aget_Forall pwf k kvb bk HF Eb).
Qed.

(* every document is compatible with every EARLIER one: then the whole history is *)
Theorem hcompat_pairwise : forall ds d0, Forall pwf ds ->
  ForallOrdPairs lcompat (d0 :: ds) -> hcompat d0 ds.
Proof.
  induction ds as [|d r IH]; intros d0 HW HP; [exact I|].
  inversion HW as [|? ? Wd Wr]; subst.
  inversion HP as [|? ? H0 HP']; subst. inversion H0 as [|? ? H0d H0r]; subst.
  inversion HP' as [|? ? Hd HPr]; subst.
  cbn [hcompat]. split; [exact H0d|]. apply IH; [exact Wr|].
  constructor; [|exact HPr].
  rewrite Forall_forall in H0r, Hd |- *. intros x Hx. apply lcompat_upd_l; auto.
Qed.
