(* Proofs/MergePrio.v — C03 as a refinement: mapping documents whose scalars, mappings and WHOLE LISTS carry ARBITRARY priorities
   (no !del / !notnew marks; !new and safety marks are free; inside a list every node has the list's priority, which is what a
   container tag gives), merged into any tree of the same kind, build exactly Spec.UpdateP.upd_p - provided a mapping never meets a
   list at the same path (lcompat; scalars may meet anything). *)
From AY Require Import Model.Merge Proofs.NodeInd Proofs.FlagsLemmas Proofs.FactsOk Spec.Update Spec.UpdateP
  Proofs.MergePlain Proofs.NotNew Model.Loader Proofs.EvalPlain Proofs.LoaderLemmas Proofs.Laws Proofs.MergeNotNew Proofs.MergeGen.

(* ---------- the priority-carrying image of a tree ---------- *)
Fixpoint perase (n : node) : pp :=
  match n with
  | Leaf _ f v => PPS (priority f) (AS v)
  | Comp k f _ ch =>
    if is_listk k
    then PPS (priority f) (AL ((fix go (l : list (key * node)) := match l with [] => [] | (_, c) :: r => erase c :: go r end) ch))
    else PPD (priority f) ((fix go (l : list (key * node)) := match l with [] => [] | (kk, c) :: r => (kk, perase c) :: go r end) ch)
  end.

Definition pch (l : list (key * node)) : list (key * pp) := map (fun kc => (fst kc, perase (snd kc))) l.
Definition lch (l : list (key * node)) : list plain := map (fun kc => erase (snd kc)) l.

Lemma perase_comp k f x ch : perase (Comp k f x ch) = if is_listk k then PPS (priority f) (AL (lch ch)) else PPD (priority f) (pch ch).
Proof.
  cbn [perase]. destruct (is_listk k).
  - do 2 f_equal. unfold lch. induction ch as [|[kk c] r IH]; cbn; [reflexivity|]. now rewrite IH.
  - f_equal. unfold pch. induction ch as [|[kk c] r IH]; cbn; [reflexivity|]. now rewrite IH.
Qed.

Lemma perase_dict f x ch : perase (Comp CDict f x ch) = PPD (priority f) (pch ch).
Proof. rewrite perase_comp. reflexivity. Qed.

Lemma perase_list f x ch : perase (Comp CList f x ch) = PPS (priority f) (AL (lch ch)).
Proof. rewrite perase_comp. reflexivity. Qed.

Lemma se_priority f f' : same_explicit f f' -> priority f = priority f'.
Proof. intros (h & _). unfold priority. now rewrite h. Qed.

Lemma Sim_perase : forall a b, Sim a b -> perase a = perase b.
Proof.
  induction a as [k f v|k f x ch IH] using node_ind'; intros b HS.
  - inversion HS; subst. cbn. f_equal. now apply se_priority.
  - inversion HS as [|k0 f0 f' x0 ch0 ch' Hse HF2]; subst. rewrite !perase_comp, (se_priority _ _ Hse).
    assert (E1 : lch ch = lch ch').
    { unfold lch. clear - HF2. induction HF2 as [|a b l l' [_ Hs] _ IHl]; cbn; [reflexivity|]. now rewrite (Sim_erase _ _ Hs), IHl. }
    assert (E2 : pch ch = pch ch').
    { unfold pch. clear HS Hse E1. revert IH. induction HF2 as [|a b l l' [Ek Hs] _ IHl]; intro IH; cbn; [reflexivity|].
      inversion IH as [|? ? Ha Hr]; subst. rewrite Ek, (Ha _ Hs), IHl; auto. }
    now rewrite E1, E2.
Qed.

Lemma adopt_perase kw c : perase (adopt kw c) = perase c.
Proof. symmetry. apply Sim_perase, adopt_sim. Qed.

Lemma propagate_perase n : perase (propagate n) = perase n.
Proof. symmetry. apply Sim_perase, propagate_sim. Qed.

Lemma perase_with_flags n f : priority f = priority (nflags n) -> perase (with_flags n f) = perase n.
Proof. intro E. destruct n as [k f0 v|k f0 x ch]; cbn [with_flags nflags] in *; [cbn; now rewrite E|]. rewrite !perase_comp. now rewrite E. Qed.

Lemma ppri_perase n : ppri (perase n) = priority (nflags n).
Proof. destruct n as [k f v|k f x ch]; [reflexivity|]. rewrite perase_comp. destruct (is_listk k); reflexivity. Qed.

(* ---------- the classes ---------- *)
(* `!new` marks are allowed (they only repeat the default); `!notnew` is not *)
Definition OZ (f : flags) : Prop := f_del f = None.
Definition NZ (f : flags) : Prop := OZ f /\ f_new f <> Some false /\ f_inew f <> Some false.

(* a subtree in which every node has priority p - what is (and sits in) a list: older side / newer side (below a list the loader
   hands down implicit_delete = True) *)
Inductive UO (p : Z) : node -> Prop :=
| UOLeaf f v : OZ f -> priority f = p -> UO p (Leaf LScalar f v)
| UODict f x ch : OZ f -> priority f = p -> Forall (fun kc => UO p (snd kc)) ch -> NoDup (map fst ch) -> UO p (Comp CDict f x ch)
| UOList f x ch : OZ f -> priority f = p -> Forall (fun kc => UO p (snd kc)) ch -> keys_enum 0 ch -> UO p (Comp CList f x ch).

Inductive UN (p : Z) : node -> Prop :=
| UNLeaf f v : NZ f -> f_idel f = Some true -> priority f = p -> UN p (Leaf LScalar f v)
| UNDict f x ch : NZ f -> f_idel f = Some true -> priority f = p -> Forall (fun kc => UN p (snd kc)) ch -> NoDup (map fst ch) -> UN p (Comp CDict f x ch)
| UNList f x ch : NZ f -> f_idel f = Some true -> priority f = p -> Forall (fun kc => UN p (snd kc)) ch -> keys_enum 0 ch -> UN p (Comp CList f x ch).

Inductive OldZ : node -> Prop :=
| OZLeaf f v : OZ f -> OldZ (Leaf LScalar f v)
| OZDict f x ch : OZ f -> Forall (fun kc => OldZ (snd kc)) ch -> NoDup (map fst ch) -> OldZ (Comp CDict f x ch)
| OZList f x ch : OZ f -> Forall (fun kc => UO (priority f) (snd kc)) ch -> keys_enum 0 ch -> OldZ (Comp CList f x ch).

Inductive NewZ : node -> Prop :=
| NZLeaf f v : NZ f -> NewZ (Leaf LScalar f v)
| NZDict f x ch : NZ f -> f_idel f = None -> Forall (fun kc => NewZ (snd kc)) ch -> NoDup (map fst ch) -> NewZ (Comp CDict f x ch)
| NZList f x ch : NZ f -> f_idel f <> Some false -> Forall (fun kc => UN (priority f) (snd kc)) ch -> keys_enum 0 ch -> NewZ (Comp CList f x ch).

Lemma OldZ_OZ n : OldZ n -> OZ (nflags n).
Proof. intro H; inversion H; auto. Qed.

Lemma NewZ_NZ n : NewZ n -> NZ (nflags n).
Proof. intro H; inversion H; auto. Qed.

Lemma UO_OZ p n : UO p n -> OZ (nflags n).
Proof. intro H; inversion H; auto. Qed.

Lemma UO_prio p n : UO p n -> priority (nflags n) = p.
Proof. intro H; inversion H; auto. Qed.

Lemma UN_prio p n : UN p n -> priority (nflags n) = p.
Proof. intro H; inversion H; auto. Qed.

Lemma UO_children p n : UO p n -> Forall (fun kc => UO p (snd kc)) (children n).
Proof. intro H; inversion H; cbn; auto. Qed.

Lemma UN_children p n : UN p n -> Forall (fun kc => UN p (snd kc)) (children n).
Proof. intro H; inversion H; cbn; auto. Qed.

Lemma UN_UO p : forall n, UN p n -> UO p n.
Proof.
  induction n as [k f v|k f x ch IH] using node_ind'; intro H.
  - inversion H as [f0 v0 [HO _] _ Hp| |]; subst. constructor; auto.
  - assert (G : Forall (fun kc => UN p (snd kc)) ch -> Forall (fun kc => UO p (snd kc)) ch).
    { clear H. induction IH as [|kc r Hkc Hr IHr]; intro HF; [constructor|]. inversion HF; subst. constructor; auto. }
    inversion H as [|f0 x0 ch0 [HO _] _ Hp HF Hnd|f0 x0 ch0 [HO _] _ Hp HF HK]; subst; constructor; auto.
Qed.

Lemma UO_OldZ p : forall n, UO p n -> OldZ n.
Proof.
  induction n as [k f v|k f x ch IH] using node_ind'; intro H.
  - inversion H; subst. constructor; auto.
  - inversion H as [|f0 x0 ch0 HO Hp HF Hnd|f0 x0 ch0 HO Hp HF HK]; subst.
    + constructor; auto. clear H Hnd. induction IH as [|kc r Hkc Hr IHr]; [constructor|]. inversion HF; subst. constructor; auto.
    + constructor; auto.
Qed.

Lemma OldZ_children n : OldZ n -> Forall (fun kc => OldZ (snd kc)) (children n).
Proof.
  intro H; inversion H as [| |f x ch HO HF HK]; subst; cbn; auto.
  clear H HK. induction HF as [|kc r Hkc Hr IH]; constructor; auto. eapply UO_OldZ; eauto.
Qed.

Lemma NewZ_oldz : forall n, NewZ n -> OldZ n.
Proof.
  induction n as [k f v|k f x ch IH] using node_ind'; intro H.
  - inversion H as [f0 v0 [HO _]| |]; subst. constructor. exact HO.
  - inversion H as [|f0 x0 ch0 [HO _] Hi HF Hnd|f0 x0 ch0 [HO _] Hi HF HK]; subst.
    + constructor; auto. clear H Hnd. induction IH as [|kc r Hkc Hr IHr]; [constructor|]. inversion HF; subst. constructor; auto.
    + constructor; auto. clear - HF. induction HF as [|kc r Hkc Hr IHr]; constructor; auto. now apply UN_UO.
Qed.

Lemma OZ_same_explicit f f' : same_explicit f f' -> OZ f -> OZ f'.
Proof. intros (a & b & c & _) h2. unfold OZ in *. congruence. Qed.

Lemma UO_sim p : forall a b, Sim a b -> UO p a -> UO p b.
Proof.
  induction a as [k f v|k f x ch IH] using node_ind'; intros b HS H.
  - inversion HS as [k0 f0 f' v0 Hse|]; subst. inversion H; subst. constructor; [eapply OZ_same_explicit; eauto|now rewrite <- (se_priority _ _ Hse)].
  - inversion HS as [|k0 f0 f' x0 ch0 ch' Hse HF2]; subst.
    pose proof (Forall2_fst_eq _ _ _ HF2) as Ek.
    assert (HF : Forall (fun kc => UO p (snd kc)) ch -> Forall (fun kc => UO p (snd kc)) ch').
    { clear - IH HF2. revert IH. induction HF2 as [|a b l l' [_ Hs] _ IHl]; intros IH HF; [constructor|].
      inversion IH; subst. inversion HF; subst. constructor; auto. }
    inversion H as [|f1 x1 ch1 HOX Hp HFch Hnd|f1 x1 ch1 HOX Hp HFch HK]; subst.
    + constructor; [eapply OZ_same_explicit; eauto|now rewrite <- (se_priority _ _ Hse)|auto|now rewrite <- Ek].
    + constructor; [eapply OZ_same_explicit; eauto|now rewrite <- (se_priority _ _ Hse)|auto|eapply keys_enum_fst; eauto].
Qed.

Lemma OldZ_sim : forall a b, Sim a b -> OldZ a -> OldZ b.
Proof.
  induction a as [k f v|k f x ch IH] using node_ind'; intros b HS H.
  - inversion HS as [k0 f0 f' v0 Hse|]; subst. inversion H; subst. constructor. eapply OZ_same_explicit; eauto.
  - inversion HS as [|k0 f0 f' x0 ch0 ch' Hse HF2]; subst.
    pose proof (Forall2_fst_eq _ _ _ HF2) as Ek.
    inversion H as [|f1 x1 ch1 HOX HFch Hnd|f1 x1 ch1 HOX HFch HK]; subst.
    + constructor; [eapply OZ_same_explicit; eauto| |now rewrite <- Ek].
      clear - IH HF2 HFch. revert IH HFch. induction HF2 as [|a b l l' [_ Hs] _ IHl]; intros IH HF; [constructor|].
      inversion IH; subst. inversion HF; subst. constructor; auto.
    + constructor; [eapply OZ_same_explicit; eauto| |eapply keys_enum_fst; eauto].
      rewrite <- (se_priority _ _ Hse).
      clear - HF2 HFch. revert HFch. induction HF2 as [|a b l l' [_ Hs] _ IHl]; intro HF; [constructor|].
      inversion HF; subst. constructor; [eapply UO_sim; eauto|auto].
Qed.

Lemma adopt_oldz kw c : OldZ c -> OldZ (adopt kw c).
Proof. apply OldZ_sim, adopt_sim. Qed.

Lemma propagate_oldz n : OldZ n -> OldZ (propagate n).
Proof. apply OldZ_sim, propagate_sim. Qed.

Lemma OldZ_explicit_delete n : OldZ n -> explicit_delete n = false.
Proof. intro H. apply OldZ_OZ in H. unfold OZ in H. unfold explicit_delete. now rewrite H. Qed.

Lemma OldZ_PlainT : forall n, OldZ n -> EvalPlain.PlainT n.
Proof.
  induction n as [k f v|k f x ch IH] using node_ind'; intro H.
  - inversion H; subst. constructor.
  - pose proof (OldZ_children _ H) as HC. cbn in HC.
    assert (HF : Forall (fun kc => EvalPlain.PlainT (snd kc)) ch).
    { clear H. induction IH as [|kc r Hkc Hr IHr]; [constructor|]. inversion HC; subst. constructor; auto. }
    inversion H as [|f0 x0 ch0 HO _ Hnd|f0 x0 ch0 HO _ HK]; subst; constructor; auto. eapply keys_enum_nodup; eauto.
Qed.

Lemma NZ_allow_new f : NZ f -> allow_new f = true.
Proof. intros (_ & _ & H). unfold allow_new, onone. destruct (f_inew f) as [[|]|]; [reflexivity|congruence|apply default_allow_new]. Qed.

(* no node of the subtree forbids new paths *)
Inductive NN : node -> Prop :=
| NN_leaf k f v : allow_new f = true -> NN (Leaf k f v)
| NN_comp k f x ch : allow_new f = true -> Forall (fun kc => NN (snd kc)) ch -> NN (Comp k f x ch).

Lemma UN_NN p : forall n, UN p n -> NN n.
Proof.
  induction n as [k f v|k f x ch IH] using node_ind'; intro H.
  - inversion H; subst. constructor. now apply NZ_allow_new.
  - pose proof (UN_children _ _ H) as HC. cbn in HC.
    assert (HA : allow_new f = true) by (inversion H; subst; now apply NZ_allow_new).
    constructor; [exact HA|]. clear H HA. induction IH as [|kc r Hkc Hr IHr]; [constructor|]. inversion HC; subst. constructor; auto.
Qed.

Lemma NewZ_NN : forall n, NewZ n -> NN n.
Proof.
  induction n as [k f v|k f x ch IH] using node_ind'; intro H.
  - inversion H; subst. constructor. now apply NZ_allow_new.
  - pose proof (NZ_allow_new _ (NewZ_NZ _ H)) as HA. cbn in HA. constructor; [exact HA|].
    inversion H as [|f0 x0 ch0 _ _ HF _|f0 x0 ch0 _ _ HF _]; subst.
    + clear H HA. induction IH as [|kc r Hkc Hr IHr]; [constructor|]. inversion HF; subst. constructor; auto.
    + clear - HF. induction HF as [|kc r Hkc Hr IHr]; constructor; auto. eapply UN_NN; eauto.
Qed.

Lemma nwp_NN : forall n pre, NN n -> Forall (fun pn => allow_new (nflags (snd pn)) = true) (nwp pre n).
Proof.
  induction n as [k f v|k f x ch IH] using node_ind'; intros pre H.
  - inversion H; subst. cbn. constructor; auto.
  - inversion H as [|k0 f0 x0 ch0 HA HF]; subst. rewrite nwp_comp. constructor; [exact HA|].
    clear H HA. induction IH as [|kc r Hkc Hr IHr]; cbn; [constructor|].
    inversion HF; subst. apply Forall_app. split; auto.
Qed.

Lemma require_all_new_NN n p exc inc : NN n -> require_all_new n p exc inc = true.
Proof.
  intro H. unfold require_all_new. apply forallb_forall. intros [q m] Hin. cbn.
  assert (Hm : allow_new (nflags m) = true).
  { destruct n as [lk f v|ck f x ch].
    - destruct inc; cbn in Hin; [|contradiction]. destruct Hin as [E|[]]. inversion E; subst. inversion H; subst. assumption.
    - unfold nodes_with_paths in Hin. pose proof (nwp_NN _ p H) as HF. rewrite Forall_forall in HF.
      destruct inc; [apply (HF (q, m)); exact Hin|].
      apply (HF (q, m)). destruct (nwp p (Comp ck f x ch)); cbn in Hin; [contradiction|right; exact Hin]. }
  now rewrite Hm.
Qed.

Lemma require_all_new_newz n p exc inc : NewZ n -> require_all_new n p exc inc = true.
Proof. intro H. apply require_all_new_NN, NewZ_NN, H. Qed.

Lemma NZ_absorb a b : NZ a -> NZ (absorb a b).
Proof. intros (h2 & h3 & h4). split; [exact h2|split; [exact h3|exact h4]]. Qed.

Lemma OZ_absorb a b : OZ a -> OZ (absorb a b).
Proof. intro h2. exact h2. Qed.

Lemma OZ_become a b : OZ a -> OZ b -> OZ (become a b).
Proof. intros h2 g2. exact g2. Qed.

Lemma priority_absorb a b : priority (absorb a b) = priority a.
Proof. reflexivity. Qed.

Lemma priority_become a b : priority (become a b) = priority b.
Proof. reflexivity. Qed.

Lemma NewZ_with_flags n f : NewZ n -> NZ f -> f_idel f = f_idel (nflags n) -> priority f = priority (nflags n) -> NewZ (with_flags n f).
Proof.
  intros H Hf Hi Hp. inversion H; subst; cbn in *; constructor; auto; try congruence. now rewrite Hp.
Qed.

Lemma OldZ_with_flags n f : OldZ n -> OZ f -> priority f = priority (nflags n) -> OldZ (with_flags n f).
Proof. intros H Hf Hp. inversion H; subst; cbn in *; constructor; auto. now rewrite Hp. Qed.

(* ---------- the relation between the spec's result and the model's ---------- *)
Definition RelZ (r : pp) (m : res (node * who)) : Prop :=
  exists n w, m = Ok (n, w) /\ OldZ n /\ perase n = r /\ (w = Other -> NewZ n).

(* one of the two values is not a mapping: the older one survives iff its priority is strictly higher *)
Lemma leaf_merge_z s o : OldZ s -> NewZ o ->
  RelZ (if ppri (perase s) >? ppri (perase o) then perase s else perase o) (Ok (leaf_merge s o)).
Proof.
  intros Hs Ho. unfold leaf_merge, has_priority_over. rewrite !ppri_perase.
  assert (Hq : NewZ (with_flags o (absorb (nflags o) (nflags s)))) by (apply NewZ_with_flags; [exact Ho|apply NZ_absorb, NewZ_NZ; exact Ho|reflexivity|reflexivity]).
  destruct (priority (nflags s) =? priority (nflags o)) eqn:Eq.
  - assert (G : priority (nflags s) >? priority (nflags o) = false) by lia. rewrite G.
    cbn [replace_other fst]. exists (with_flags o (absorb (nflags o) (nflags s))), Other. split; [reflexivity|].
    split; [apply NewZ_oldz; exact Hq|]. split; [apply perase_with_flags; reflexivity|auto].
  - destruct (priority (nflags s) >? priority (nflags o)) eqn:Eg.
    + cbn [replace_other fst]. exists (with_flags s (absorb (nflags s) (nflags o))), Self. split; [reflexivity|].
      split; [apply OldZ_with_flags; [exact Hs|apply OZ_absorb, OldZ_OZ; exact Hs|reflexivity]|]. split; [apply perase_with_flags; reflexivity|intro Hx; discriminate].
    + cbn [replace_other fst]. exists (with_flags o (absorb (nflags o) (nflags s))), Other. split; [reflexivity|].
      split; [apply NewZ_oldz; exact Hq|]. split; [apply perase_with_flags; reflexivity|auto].
Qed.

(* the loop of the spec, as a top-level function *)
Fixpoint updp_go (kv : list (key * pp)) (acc : list (key * pp)) : list (key * pp) :=
  match kv with
  | [] => acc
  | (k, v) :: rest =>
    match aget k acc with
    | Some ov => updp_go rest (aset k (upd_p ov v) acc)
    | None => updp_go rest (aset k v acc)
    end
  end.

Lemma upd_p_DD po okv pn kv : upd_p (PPD po okv) (PPD pn kv) = PPD (if po >? pn then po else pn) (updp_go kv okv).
Proof.
  cbn [upd_p]. apply f_equal. revert okv. induction kv as [|[k v] rest IH]; intro okv; cbn [updp_go]; [reflexivity|].
  destruct (aget k okv); apply IH.
Qed.

Lemma upd_p_other old new : (match new with PPD _ _ => False | _ => True end) \/ (match old with PPS _ _ => True | _ => False end) ->
  upd_p old new = if ppri old >? ppri new then old else new.
Proof. destruct new, old; cbn; intros [H|H]; try contradiction; reflexivity. Qed.

Lemma pch_aset k n l : pch (aset k n l) = aset k (perase n) (pch l).
Proof. unfold pch. apply (aset_map (fun c => perase c)). Qed.

Lemma pch_aget k l : aget k (pch l) = option_map perase (aget k l).
Proof. unfold pch. apply (aget_map (fun c => perase c)). Qed.

Lemma lcompat_DD po okv pn kv :
  lcompat (PPD po okv) (PPD pn kv) <-> Forall (fun kc => match aget (fst kc) okv with Some ov => lcompat ov (snd kc) | None => True end) kv.
Proof.
  cbn [lcompat]. induction kv as [|[k v] r IH]; [split; [constructor|trivial]|].
  split.
  - intros [H1 H2]. constructor; [exact H1|apply IH; exact H2].
  - intro H. inversion H; subst. split; [assumption|apply IH; assumption].
Qed.

(* the loop over a mapping merged onto a mapping *)
Lemma loop_dict_z rec p f x : forall cho chs,
  (forall k v c, In (k, v) cho -> OldZ c -> lcompat (perase c) (perase v) -> RelZ (upd_p (perase c) (perase v)) (rec (p ++ [k]) c v)) ->
  (forall k v c, In (k, v) cho -> aget k chs = Some c -> lcompat (perase c) (perase v)) ->
  Forall (fun kc => NewZ (snd kc)) cho -> NoDup (map fst cho) ->
  OldZ (Comp CDict f x chs) ->
  exists chs', fold_left (merge_step rec [] p) cho (Ok (Comp CDict f x chs)) = Ok (Comp CDict f x chs')
               /\ OldZ (Comp CDict f x chs') /\ pch chs' = updp_go (pch cho) (pch chs).
Proof.
  induction cho as [|[k v] rest IH]; intros chs Hrec Hcomp HP Hndo Hold.
  - cbn. exists chs. auto.
  - cbn [pch map fst snd]. fold (pch rest). cbn [updp_go fold_left].
    inversion HP as [|? ? Hv HPr]; subst. cbn [snd] in Hv.
    cbn [map fst] in Hndo. inversion Hndo as [|? ? Hnik Hndr]; subst.
    assert (Hf : OZ f) by (apply OldZ_OZ in Hold; exact Hold).
    assert (HF : Forall (fun kc => OldZ (snd kc)) chs) by (apply OldZ_children in Hold; exact Hold).
    assert (Hnd : NoDup (map fst chs)) by (inversion Hold; assumption).
    assert (Hstep : forall n', OldZ n' -> NoDup (map fst (aset k n' chs)) ->
               merge_step rec [] p (Ok (Comp CDict f x chs)) (k, v) = Ok (Comp CDict f x (aset k n' chs)) ->
               exists chs', fold_left (merge_step rec [] p) rest (merge_step rec [] p (Ok (Comp CDict f x chs)) (k, v)) = Ok (Comp CDict f x chs')
                            /\ OldZ (Comp CDict f x chs') /\ pch chs' = updp_go (pch rest) (aset k (perase n') (pch chs))).
    { intros n' Hn' Hnd' Heq. rewrite Heq.
      specialize (IH (aset k n' chs)). rewrite pch_aset in IH. apply IH; [| |exact HPr|exact Hndr|].
      - intros k0 v0 c0 Hin. apply Hrec. right. exact Hin.
      - intros k0 v0 c0 Hin Ha. apply (Hcomp k0 v0 c0); [right; exact Hin|].
        assert (Ek : key_eqb k0 k = false).
        { apply key_eqb_neq. intro E. subst k0. apply Hnik. apply in_map_iff. exists (k, v0). auto. }
        now rewrite (aget_aset_neq k0 k n' chs Ek) in Ha.
      - constructor; auto. apply aset_Forall; auto. }
    rewrite pch_aget.
    destruct (aget k chs) as [c|] eqn:Eg; cbn [option_map].
    + assert (Hc : OldZ c) by (eapply aget_Forall; eauto).
      assert (Hnd' : forall n', NoDup (map fst (aset k n' chs))) by (intro n'; now rewrite (aset_fst k n' c chs Eg)).
      specialize (Hrec k v c (or_introl eq_refl) Hc (Hcomp k v c (or_introl eq_refl) Eg)).
      destruct Hrec as (n & w & Er & Hn & En & Hw). rewrite <- En.
      assert (Hexp : explicit_delete v = false) by (apply OldZ_explicit_delete, NewZ_oldz; exact Hv).
      assert (Hexpn : explicit_delete n = false) by (apply OldZ_explicit_delete; exact Hn).
      destruct w, (is_comp c) eqn:Eic.
      * apply (Hstep n Hn (Hnd' n)).
        unfold merge_step. cbn [bind get_child is_listk]. rewrite Eg. cbn [path_in existsb]. rewrite Er. cbn [bind].
        rewrite Eic, Hexp, !andb_false_r. reflexivity.
      * apply (Hstep n Hn (Hnd' n)).
        unfold merge_step. cbn [bind get_child is_listk]. rewrite Eg. cbn [path_in existsb]. rewrite Er. cbn [bind].
        rewrite Eic. reflexivity.
      * rewrite <- (adopt_perase (child_kwargs (Comp CDict f x chs)) n).
        apply (Hstep (adopt (child_kwargs (Comp CDict f x chs)) n)); [apply adopt_oldz; auto|apply Hnd'|].
        unfold merge_step. cbn [bind get_child is_listk]. rewrite Eg. cbn [path_in existsb]. rewrite Er. cbn [bind].
        rewrite Eic, Hexp, !andb_false_r. reflexivity.
      * rewrite <- (adopt_perase (child_kwargs (Comp CDict f x chs)) n).
        apply (Hstep (adopt (child_kwargs (Comp CDict f x chs)) n)); [apply adopt_oldz; auto|apply Hnd'|].
        unfold merge_step. cbn [bind get_child is_listk]. rewrite Eg. cbn [path_in existsb]. rewrite Er. cbn [bind].
        rewrite Eic, (require_all_new_newz n _ _ _ (Hw eq_refl)), Hexpn, !andb_false_r. reflexivity.
    + rewrite <- (adopt_perase (child_kwargs (Comp CDict f x chs)) v).
      apply (Hstep (adopt (child_kwargs (Comp CDict f x chs)) v)).
      * apply adopt_oldz, NewZ_oldz; exact Hv.
      * rewrite (aset_new_fst k _ chs Eg). apply NoDup_app_snoc; [exact Hnd|].
        intro Hin. apply in_map_iff in Hin. destruct Hin as ([k' c'] & Ek & Hin). cbn in Ek. subst k'.
        rewrite (In_aget k c' chs Hnd Hin) in Eg. discriminate.
      * unfold merge_step. cbn [bind get_child is_listk]. rewrite Eg.
        rewrite require_all_new_newz by exact Hv. reflexivity.
Qed.

(* ---------- filter_nodes with a condition that is constant on a class of subtrees ---------- *)
Section FilterConst.
  Variable P : node -> Prop.
  Hypothesis P_children : forall n, P n -> Forall (fun kc => P (snd kc)) (children n).
  Hypothesis P_enum : forall f x ch, P (Comp CList f x ch) -> keys_enum 0 ch.
  Hypothesis P_kinds : forall k f x ch, P (Comp k f x ch) -> k = CDict \/ k = CList.
  Variable cond : path -> node -> bool.

  Lemma shift_kept_all_true kw il : forall l, shift_kept kw il (map (fun kc : key * node => (fst kc, snd kc, true)) l) false = l.
  Proof. induction l as [|[kk c] r IHl]; cbn; [reflexivity|]. now rewrite IHl. Qed.

  Lemma filter_keep_P : (forall q m, P m -> cond q m = true) -> forall n pre, P n -> filter_nodes cond pre n = (n, []).
  Proof.
    intro Hc. induction n as [k f v|k f x ch IH] using node_ind'; intros pre H; [reflexivity|].
    rewrite filter_nodes_comp. cbv zeta.
    pose proof (P_children _ H) as HF. cbn in HF.
    assert (HA : filter_go cond pre ch = (map (fun kc => (fst kc, snd kc, true)) ch, [])).
    { clear H. induction IH as [|kc r Hkc Hr IHr]; cbn [filter_go]; [reflexivity|].
      inversion HF as [|? ? Hkc1 HFr]; subst. rewrite (IHr HFr).
      unfold filter_child. rewrite (Hc _ _ Hkc1). cbn [orb].
      destruct (snd kc) as [lk lf lv|ck cf cx cch] eqn:Ekc.
      - cbn. rewrite <- Ekc. reflexivity.
      - rewrite (Hkc (pre ++ [fst kc]) Hkc1). cbn. rewrite <- Ekc. reflexivity. }
    rewrite HA. cbn [fst snd]. rewrite shift_kept_all_true.
    destruct (P_kinds _ _ _ _ H) as [-> | ->]; cbn [is_listk]; [reflexivity|].
    rewrite renum_enum; [reflexivity|]. eapply P_enum; eauto.
  Qed.

  Lemma filter_none_P : (forall q m, P m -> cond q m = false) -> forall n pre, P n -> fst (filter_nodes cond pre n) = clear_children n.
  Proof.
    intro Hc. induction n as [k f v|k f x ch IH] using node_ind'; intros pre H; [reflexivity|].
    rewrite filter_nodes_comp. cbv zeta. cbn [fst clear_children].
    pose proof (P_children _ H) as HF. cbn in HF.
    assert (G : Forall (fun m => snd m = false) (fst (filter_go cond pre ch))).
    { clear H. revert pre. induction IH as [|kc r Hkc Hr IHr]; intro pre; cbn [filter_go]; [constructor|].
      inversion HF as [|? ? Hkc1 HFr]; subst.
      assert (Efc : snd (fst (filter_child (filter_nodes cond) cond pre kc)) = false).
      { unfold filter_child. rewrite (Hc _ _ Hkc1). cbn [orb].
        destruct (snd kc) as [lk lf lv|ck cf cx cch] eqn:Ekc; [reflexivity|].
        pose proof (Hkc (pre ++ [fst kc]) Hkc1) as Hr'.
        destruct (filter_nodes cond (pre ++ [fst kc]) (Comp ck cf cx cch)) as [c' rc]. cbn [fst snd] in *. subst c'. reflexivity. }
      destruct (filter_child (filter_nodes cond) cond pre kc) as [[[kk c'] b] rm]. cbn [fst snd] in Efc. subst b.
      specialize (IHr HFr pre). destruct (filter_go cond pre r) as [rest rem_r]. cbn [fst snd] in *. constructor; auto. }
    rewrite (shift_kept_all_false _ _ _ _ G). destruct (is_listk k); reflexivity.
  Qed.
End FilterConst.

(* ---------- a whole list meets a whole list ---------- *)
Lemma UO_kinds p k f x ch : UO p (Comp k f x ch) -> k = CDict \/ k = CList.
Proof. intro H; inversion H; auto. Qed.

Lemma UO_enum p f x ch : UO p (Comp CList f x ch) -> keys_enum 0 ch.
Proof. intro H; inversion H; auto. Qed.

Lemma get_child_UO p n k c : UO p n -> get_child n k = Some c -> UO p c.
Proof.
  intros H E. destruct n as [lk f v|ck f x ch]; cbn in E; [discriminate|].
  pose proof (UO_children _ _ H) as HF. cbn in HF.
  destruct (is_listk ck).
  - destruct (validate_index (zlen ch) k true); try discriminate. exact (aget_Forall (UO p) _ ch c HF E).
  - exact (aget_Forall (UO p) _ ch c HF E).
Qed.

Lemma fnm_UO p : forall q n, UO p n -> UO p (first_not_missing n q).
Proof.
  induction q as [|k r IH]; intros n H; cbn; [exact H|].
  destruct (has_child n k); [|exact H].
  destruct (get_child n k) eqn:E; [|exact H]. apply IH. eapply get_child_UO; eauto.
Qed.

Lemma OldZ_list_UO f x ch : OldZ (Comp CList f x ch) -> UO (priority f) (Comp CList f x ch).
Proof. intro H. inversion H; subst. constructor; auto. Qed.

Lemma NewZ_list_UO f x ch : NewZ (Comp CList f x ch) -> UO (priority f) (Comp CList f x ch).
Proof.
  intro H. inversion H as [| |f0 x0 ch0 [HO _] _ HF HK]; subst. constructor; auto.
  clear - HF. induction HF as [|kc r Hkc Hr IH]; constructor; auto. now apply UN_UO.
Qed.

Lemma UN_delete p n : UN p n -> delete n = true.
Proof. intro H. unfold delete. inversion H as [f v [HO _] Hi _|f x ch [HO _] Hi _ _ _|f x ch [HO _] Hi _ _ _]; subst; cbn [nflags]; unfold OZ in HO; now rewrite HO, Hi. Qed.

Lemma hpo_prio a b e : has_priority_over a b e = if priority (nflags a) =? priority (nflags b) then e else priority (nflags a) >? priority (nflags b).
Proof. reflexivity. Qed.

Lemma list_list_z rec p fs xs chs fo xo cho :
  OldZ (Comp CList fs xs chs) -> NewZ (Comp CList fo xo cho) ->
  RelZ (if priority fs >? priority fo then perase (Comp CList fs xs chs) else perase (Comp CList fo xo cho))
       (list_merge rec [] p (Comp CList fs xs chs) (Comp CList fo xo cho)).
Proof.
  intros Hs Ho. set (s := Comp CList fs xs chs) in *. set (o := Comp CList fo xo cho) in *.
  set (ps := priority fs). set (po := priority fo).
  pose proof (OldZ_list_UO _ _ _ Hs) as Us. fold s ps in Us.
  pose proof (NewZ_list_UO _ _ _ Ho) as Uo. fold o po in Uo.
  assert (HFo : Forall (fun kc => UN po (snd kc)) cho) by (inversion Ho; subst; assumption).
  assert (Edo : forall ch', delete (Comp CList fo xo ch') = true).
  { intro ch'. inversion Ho as [| |f0 x0 ch0 [HO _] Hi _ _]; subst. unfold delete. cbn [nflags]. unfold OZ in HO. rewrite HO.
    destruct (f_idel fo) as [[|]|]; [reflexivity|congruence|apply list_default_delete]. }
  assert (HNN : forall ch', Forall (fun kc => NN (snd kc)) ch' -> NN (Comp CList fo xo ch')).
  { intros ch' H. constructor; [apply NZ_allow_new, (NewZ_NZ _ Ho)|exact H]. }
  unfold list_merge, o. cbn [is_listk negb andb]. fold o.
  (* the pre-filter of the newer list *)
  assert (Hkeep : forall q m, UN po m -> keep_if_exists s q m = if po =? ps then true else po >? ps).
  { intros q m Hm. unfold keep_if_exists. rewrite (UN_delete _ _ Hm). cbn [negb orb]. rewrite hpo_prio.
    rewrite (UN_prio _ _ Hm), (UO_prio _ _ (fnm_UO ps q s Us)). reflexivity. }
  destruct (if po =? ps then true else po >? ps) eqn:Ege.
  - (* the newer list is not outranked: it replaces the older one wholesale *)
    assert (E1 : filter_nodes (keep_if_exists s) [] o = (o, [])).
    { unfold o. rewrite filter_nodes_comp. cbv zeta.
      assert (HA : filter_go (keep_if_exists s) [] cho = (map (fun kc => (fst kc, snd kc, true)) cho, [])).
      { clear - HFo Hkeep. induction HFo as [|kc r Hkc Hr IHr]; cbn [filter_go]; [reflexivity|]. rewrite IHr.
        unfold filter_child. rewrite (Hkeep _ _ Hkc). cbn [orb].
        destruct (snd kc) as [lk lf lv|ck cf cx cch] eqn:Ekc; [cbn; rewrite <- Ekc; reflexivity|].
        rewrite (filter_keep_P (UN po) (UN_children po) (fun f x ch H => match H with UNList _ _ _ _ _ _ _ _ HK => HK end)
                   (fun k f x ch H => match H in UN _ n return match n with Comp k _ _ _ => k = CDict \/ k = CList | _ => True end with
                                      | UNLeaf _ _ _ _ _ _ => I | UNDict _ _ _ _ _ _ _ _ _ => or_introl eq_refl | UNList _ _ _ _ _ _ _ _ _ => or_intror eq_refl end)
                   (keep_if_exists s) Hkeep _ _ Hkc).
        cbn. rewrite <- Ekc. reflexivity. }
      rewrite HA. cbn [fst snd is_listk]. rewrite shift_kept_all_true. rewrite renum_enum; [reflexivity|]. inversion Ho; subst; assumption. }
    rewrite E1. cbn [fst]. unfold comp_merge. unfold o. fold o. unfold prune.
    assert (Edo' : delete o = true) by apply Edo. rewrite Edo'.
    set (cond2 := fun (ap : path) (n : node) => has_priority_over n (first_not_missing o (skipn (length p) ap)) false).
    assert (Hc2 : forall q m, UO ps m -> cond2 q m = false).
    { intros q m Hm. unfold cond2. rewrite hpo_prio, (UO_prio _ _ Hm), (UO_prio _ _ (fnm_UO po _ o Uo)). fold ps po in Ege |- *.
      destruct (po =? ps) eqn:E1'; [assert (ps =? po = true) as -> by lia; reflexivity|].
      assert (ps =? po = false) as -> by lia. lia. }
    pose proof (filter_none_P (UO ps) (UO_children ps) cond2 Hc2 s p Us) as Ef.
    destruct (filter_nodes cond2 p s) as [s' removed]. cbn [fst] in Ef. subst s'. unfold s. cbn [clear_children children andb].
    rewrite hpo_prio. unfold o. cbn [nflags]. fold o. fold ps po. rewrite Ege.
    rewrite (require_all_new_NN o _ _ _ (NewZ_NN _ Ho)).
    unfold replace_other, o. cbn [with_flags nflags maybe_promote ckind_eqb fst snd who_of].
    assert (Hq : NewZ (with_flags o (absorb fo fs))) by (apply NewZ_with_flags; [exact Ho|apply NZ_absorb, (NewZ_NZ _ Ho)|reflexivity|reflexivity]).
    exists (Comp CList (absorb fo fs) xo cho), Other. split; [reflexivity|]. split; [apply NewZ_oldz; exact Hq|].
    split; [|intros _; exact Hq].
    assert (G : ps >? po = false).
    { destruct (po =? ps) eqn:E1'; lia. }
    fold ps po. rewrite G. rewrite !perase_list. reflexivity.
  - (* the older list outranks the newer one: the newer elements are dropped by the pre-filter, the older list stays *)
    assert (Hkeep' : forall q m, UN po m -> keep_if_exists s q m = false) by (intros q m Hm; now rewrite Hkeep).
    assert (E1 : fst (filter_nodes (keep_if_exists s) [] o) = Comp CList fo xo []).
    { unfold o. rewrite filter_nodes_comp. cbv zeta. cbn [fst is_listk].
      assert (G : Forall (fun m => snd m = false) (fst (filter_go (keep_if_exists s) [] cho))).
      { clear - HFo Hkeep'. induction HFo as [|kc r Hkc Hr IHr]; cbn [filter_go]; [constructor|].
        assert (Efc : snd (fst (filter_child (filter_nodes (keep_if_exists s)) (keep_if_exists s) [] kc)) = false).
        { unfold filter_child. rewrite (Hkeep' _ _ Hkc). cbn [orb].
          destruct (snd kc) as [lk lf lv|ck cf cx cch] eqn:Ekc; [reflexivity|].
          pose proof (filter_none_P (UN po) (UN_children po) (keep_if_exists s) Hkeep' _ ([] ++ [fst kc]) Hkc) as Hr'.
          destruct (filter_nodes (keep_if_exists s) ([] ++ [fst kc]) (Comp ck cf cx cch)) as [c' rc]. cbn [fst snd] in *. subst c'. reflexivity. }
        destruct (filter_child (filter_nodes (keep_if_exists s)) (keep_if_exists s) [] kc) as [[[kk c'] b] rm]. cbn [fst snd] in Efc. subst b.
        destruct (filter_go (keep_if_exists s) [] r) as [rest rem_r]. cbn [fst snd] in *. constructor; auto. }
      rewrite (shift_kept_all_false _ _ _ _ G). reflexivity. }
    rewrite E1. set (o1 := Comp CList fo xo []).
    assert (Uo1 : UO po o1) by (inversion Uo; subst; constructor; auto; cbn; auto).
    unfold comp_merge. unfold o1. fold o1. unfold prune.
    assert (Edo' : delete o1 = true) by apply Edo. rewrite Edo'.
    set (cond2 := fun (ap : path) (n : node) => has_priority_over n (first_not_missing o1 (skipn (length p) ap)) false).
    assert (G : ps >? po = true).
    { destruct (po =? ps) eqn:E1'; [discriminate|]. lia. }
    assert (Hc2 : forall q m, UO ps m -> cond2 q m = true).
    { intros q m Hm. unfold cond2. rewrite hpo_prio, (UO_prio _ _ Hm), (UO_prio _ _ (fnm_UO po _ o1 Uo1)).
      assert (ps =? po = false) as -> by lia. exact G. }
    rewrite (filter_keep_P (UO ps) (UO_children ps) (UO_enum ps) (UO_kinds ps) cond2 Hc2 s p Us).
    assert (Eh : has_priority_over o1 s true = false).
    { rewrite hpo_prio. unfold o1, s. cbn [nflags]. fold ps po. destruct (po =? ps) eqn:E1'; [discriminate|exact Ege]. }
    rewrite Eh, andb_false_r. cbn [fold_left bind]. rewrite Eh.
    unfold replace_other, s, o1. cbn [with_flags nflags maybe_promote ckind_eqb fst snd who_of].
    exists (Comp CList (absorb fs fo) xs chs), Self. split; [reflexivity|].
    split; [apply (OldZ_with_flags s (absorb fs fo) Hs); [apply OZ_absorb, (OldZ_OZ _ Hs)|reflexivity]|].
    split; [|intro Hx; discriminate]. fold ps po. rewrite G. rewrite !perase_list. reflexivity.
Qed.

(* the same with the resulting node spelled out *)
Lemma list_list_eq rec p fs xs chs fo xo cho :
  OldZ (Comp CList fs xs chs) -> NewZ (Comp CList fo xo cho) ->
  list_merge rec [] p (Comp CList fs xs chs) (Comp CList fo xo cho) =
  Ok (if priority fs >? priority fo then (Comp CList (absorb fs fo) xs chs, Self) else (Comp CList (absorb fo fs) xo cho, Other)).
Proof.
  intros Hs Ho. set (s := Comp CList fs xs chs) in *. set (o := Comp CList fo xo cho) in *.
  set (ps := priority fs). set (po := priority fo).
  pose proof (OldZ_list_UO _ _ _ Hs) as Us. fold s ps in Us.
  pose proof (NewZ_list_UO _ _ _ Ho) as Uo. fold o po in Uo.
  assert (HFo : Forall (fun kc => UN po (snd kc)) cho) by (inversion Ho; subst; assumption).
  assert (Edo : forall ch', delete (Comp CList fo xo ch') = true).
  { intro ch'. inversion Ho as [| |f0 x0 ch0 [HO _] Hi _ _]; subst. unfold delete. cbn [nflags]. unfold OZ in HO. rewrite HO.
    destruct (f_idel fo) as [[|]|]; [reflexivity|congruence|apply list_default_delete]. }
  assert (HNN : forall ch', Forall (fun kc => NN (snd kc)) ch' -> NN (Comp CList fo xo ch')).
  { intros ch' H. constructor; [apply NZ_allow_new, (NewZ_NZ _ Ho)|exact H]. }
  unfold list_merge, o. cbn [is_listk negb andb]. fold o.
  (* the pre-filter of the newer list *)
  assert (Hkeep : forall q m, UN po m -> keep_if_exists s q m = if po =? ps then true else po >? ps).
  { intros q m Hm. unfold keep_if_exists. rewrite (UN_delete _ _ Hm). cbn [negb orb]. rewrite hpo_prio.
    rewrite (UN_prio _ _ Hm), (UO_prio _ _ (fnm_UO ps q s Us)). reflexivity. }
  destruct (if po =? ps then true else po >? ps) eqn:Ege.
  - (* the newer list is not outranked: it replaces the older one wholesale *)
    assert (E1 : filter_nodes (keep_if_exists s) [] o = (o, [])).
    { unfold o. rewrite filter_nodes_comp. cbv zeta.
      assert (HA : filter_go (keep_if_exists s) [] cho = (map (fun kc => (fst kc, snd kc, true)) cho, [])).
      { clear - HFo Hkeep. induction HFo as [|kc r Hkc Hr IHr]; cbn [filter_go]; [reflexivity|]. rewrite IHr.
        unfold filter_child. rewrite (Hkeep _ _ Hkc). cbn [orb].
        destruct (snd kc) as [lk lf lv|ck cf cx cch] eqn:Ekc; [cbn; rewrite <- Ekc; reflexivity|].
        rewrite (filter_keep_P (UN po) (UN_children po) (fun f x ch H => match H with UNList _ _ _ _ _ _ _ _ HK => HK end)
                   (fun k f x ch H => match H in UN _ n return match n with Comp k _ _ _ => k = CDict \/ k = CList | _ => True end with
                                      | UNLeaf _ _ _ _ _ _ => I | UNDict _ _ _ _ _ _ _ _ _ => or_introl eq_refl | UNList _ _ _ _ _ _ _ _ _ => or_intror eq_refl end)
                   (keep_if_exists s) Hkeep _ _ Hkc).
        cbn. rewrite <- Ekc. reflexivity. }
      rewrite HA. cbn [fst snd is_listk]. rewrite shift_kept_all_true. rewrite renum_enum; [reflexivity|]. inversion Ho; subst; assumption. }
    rewrite E1. cbn [fst]. unfold comp_merge. unfold o. fold o. unfold prune.
    assert (Edo' : delete o = true) by apply Edo. rewrite Edo'.
    set (cond2 := fun (ap : path) (n : node) => has_priority_over n (first_not_missing o (skipn (length p) ap)) false).
    assert (Hc2 : forall q m, UO ps m -> cond2 q m = false).
    { intros q m Hm. unfold cond2. rewrite hpo_prio, (UO_prio _ _ Hm), (UO_prio _ _ (fnm_UO po _ o Uo)). fold ps po in Ege |- *.
      destruct (po =? ps) eqn:E1'; [assert (ps =? po = true) as -> by lia; reflexivity|].
      assert (ps =? po = false) as -> by lia. lia. }
    pose proof (filter_none_P (UO ps) (UO_children ps) cond2 Hc2 s p Us) as Ef.
    destruct (filter_nodes cond2 p s) as [s' removed]. cbn [fst] in Ef. subst s'. unfold s. cbn [clear_children children andb].
    rewrite hpo_prio. unfold o. cbn [nflags]. fold o. fold ps po. rewrite Ege.
    rewrite (require_all_new_NN o _ _ _ (NewZ_NN _ Ho)).
    unfold replace_other, o. cbn [with_flags nflags maybe_promote ckind_eqb fst snd who_of].
    assert (G : ps >? po = false).
    { destruct (po =? ps) eqn:E1'; lia. }
    fold ps po. rewrite G. reflexivity.
  - (* the older list outranks the newer one: the newer elements are dropped by the pre-filter, the older list stays *)
    assert (Hkeep' : forall q m, UN po m -> keep_if_exists s q m = false) by (intros q m Hm; now rewrite Hkeep).
    assert (E1 : fst (filter_nodes (keep_if_exists s) [] o) = Comp CList fo xo []).
    { unfold o. rewrite filter_nodes_comp. cbv zeta. cbn [fst is_listk].
      assert (G : Forall (fun m => snd m = false) (fst (filter_go (keep_if_exists s) [] cho))).
      { clear - HFo Hkeep'. induction HFo as [|kc r Hkc Hr IHr]; cbn [filter_go]; [constructor|].
        assert (Efc : snd (fst (filter_child (filter_nodes (keep_if_exists s)) (keep_if_exists s) [] kc)) = false).
        { unfold filter_child. rewrite (Hkeep' _ _ Hkc). cbn [orb].
          destruct (snd kc) as [lk lf lv|ck cf cx cch] eqn:Ekc; [reflexivity|].
          pose proof (filter_none_P (UN po) (UN_children po) (keep_if_exists s) Hkeep' _ ([] ++ [fst kc]) Hkc) as Hr'.
          destruct (filter_nodes (keep_if_exists s) ([] ++ [fst kc]) (Comp ck cf cx cch)) as [c' rc]. cbn [fst snd] in *. subst c'. reflexivity. }
        destruct (filter_child (filter_nodes (keep_if_exists s)) (keep_if_exists s) [] kc) as [[[kk c'] b] rm]. cbn [fst snd] in Efc. subst b.
        destruct (filter_go (keep_if_exists s) [] r) as [rest rem_r]. cbn [fst snd] in *. constructor; auto. }
      rewrite (shift_kept_all_false _ _ _ _ G). reflexivity. }
    rewrite E1. set (o1 := Comp CList fo xo []).
    assert (Uo1 : UO po o1) by (inversion Uo; subst; constructor; auto; cbn; auto).
    unfold comp_merge. unfold o1. fold o1. unfold prune.
    assert (Edo' : delete o1 = true) by apply Edo. rewrite Edo'.
    set (cond2 := fun (ap : path) (n : node) => has_priority_over n (first_not_missing o1 (skipn (length p) ap)) false).
    assert (G : ps >? po = true).
    { destruct (po =? ps) eqn:E1'; [discriminate|]. lia. }
    assert (Hc2 : forall q m, UO ps m -> cond2 q m = true).
    { intros q m Hm. unfold cond2. rewrite hpo_prio, (UO_prio _ _ Hm), (UO_prio _ _ (fnm_UO po _ o1 Uo1)).
      assert (ps =? po = false) as -> by lia. exact G. }
    rewrite (filter_keep_P (UO ps) (UO_children ps) (UO_enum ps) (UO_kinds ps) cond2 Hc2 s p Us).
    assert (Eh : has_priority_over o1 s true = false).
    { rewrite hpo_prio. unfold o1, s. cbn [nflags]. fold ps po. destruct (po =? ps) eqn:E1'; [discriminate|exact Ege]. }
    rewrite Eh, andb_false_r. cbn [fold_left bind]. rewrite Eh.
    unfold replace_other, s, o1. cbn [with_flags nflags maybe_promote ckind_eqb fst snd who_of].
    fold ps po. rewrite G. reflexivity.
Qed.

Lemma is_AL_perase_list f x ch : perase (Comp CList f x ch) = PPS (priority f) (AL (lch ch)).
Proof. apply perase_list. Qed.

Lemma merge_z : forall fuel p s o, OldZ s -> NewZ o -> lcompat (perase s) (perase o) -> (nsize o < fuel)%nat ->
  RelZ (upd_p (perase s) (perase o)) (on_merge [] fuel p s o).
Proof.
  induction fuel as [|fu IH]; intros p s o Hs Hp Hc Hlt; [lia|].
  cbn [on_merge].
  destruct s as [lk lf lv | ck cf cx chs].
  - cbn [dispatch]. rewrite upd_p_other by (right; cbn; exact I). apply leaf_merge_z; auto.
  - inversion Hp as [fo v HN|fo xo cho HN Hi HF Hnd|fo xo cho HN Hi HF HK]; subst.
    + (* a scalar meets a container *)
      rewrite upd_p_other by (left; exact I).
      assert (E : dispatch (on_merge [] fu) [] p (Comp ck cf cx chs) (Leaf LScalar fo v) = Ok (leaf_merge (Comp ck cf cx chs) (Leaf LScalar fo v))).
      { inversion Hs; subst; reflexivity. }
      rewrite E. apply leaf_merge_z; auto.
    + (* a mapping *)
      rewrite nsize_comp in Hlt.
      set (o := Comp CDict fo xo cho) in *.
      assert (Ho : OldZ o) by (apply NewZ_oldz; exact Hp).
      assert (Eo : perase o = PPD (priority fo) (pch cho)) by (unfold o; apply perase_dict).
      inversion Hs as [|f0 x0 ch0 HOX HFch Hnd0|f0 x0 ch0 HOX HFch HK0]; subst.
      2:{ (* ... never meets a list *) rewrite perase_list, Eo in Hc. cbn in Hc. contradiction. }
      rewrite perase_dict, Eo in Hc. rewrite lcompat_DD in Hc.
      assert (Hrec : forall k v c, In (k, v) cho -> OldZ c -> lcompat (perase c) (perase v) -> RelZ (upd_p (perase c) (perase v)) (on_merge [] fu (p ++ [k]) c v)).
      { intros k v c Hin Hc0 Hl. rewrite Forall_forall in HF. apply IH; [exact Hc0|apply (HF (k, v) Hin)|exact Hl|].
        assert (nsize v <= list_sum (map (fun kc => nsize (snd kc)) cho))%nat; [|lia].
        clear - Hin. unfold list_sum. induction cho as [|[k' v'] r IHr]; [contradiction|]. cbn [map fold_right snd fst]. destruct Hin as [E|Hin]; [inversion E; subst; lia|].
        specialize (IHr Hin). lia. }
      assert (Hcomp : forall k v c, In (k, v) cho -> aget k chs = Some c -> lcompat (perase c) (perase v)).
      { intros k v c Hin Ea. rewrite Forall_forall in Hc. specialize (Hc (k, perase v)). cbn [fst snd] in Hc.
        rewrite pch_aget, Ea in Hc. cbn [option_map] in Hc. apply Hc. unfold pch. apply in_map_iff. exists (k, v). auto. }
      assert (Edo : delete o = false).
      { destruct HN as [Hd _]. unfold OZ in Hd. unfold o, delete. cbn [nflags]. rewrite Hd, Hi. cbn. apply dict_default_delete. }
      rewrite perase_dict, Eo, upd_p_DD.
      cbn [dispatch is_funck is_listk]. unfold comp_merge. unfold o at 1.
      unfold prune. fold o. rewrite Edo.
      destruct (loop_dict_z (on_merge [] fu) p cf cx cho chs Hrec Hcomp HF Hnd Hs) as (chs' & EL & Hold' & Er).
      rewrite EL. cbn [bind].
      unfold has_priority_over. cbn [nflags]. unfold o at 1 2. cbn [nflags].
      assert (Hpm : forall f2, maybe_promote (Comp CDict f2 cx chs') o = (Comp CDict f2 cx chs', false)) by reflexivity.
      assert (HO2 : forall f2, OZ f2 -> OldZ (Comp CDict f2 cx chs')) by (intros f2 H2; inversion Hold'; subst; constructor; auto).
      destruct (priority fo =? priority cf) eqn:Eq.
      * unfold replace_self. cbn [with_flags nflags]. rewrite Hpm. cbn [fst snd who_of].
        exists (propagate (Comp CDict (become cf (nflags o)) cx chs')), Self. split; [reflexivity|].
        split; [apply propagate_oldz, HO2, OZ_become; [exact HOX|apply (OldZ_OZ _ Ho)]|]. split; [|intro Hx; discriminate].
        rewrite propagate_perase, perase_dict, priority_become, Er. unfold o. cbn [nflags]. f_equal.
        assert (G : priority cf >? priority fo = false) by lia. now rewrite G.
      * destruct (priority fo >? priority cf) eqn:Eg.
        -- unfold replace_self. cbn [with_flags nflags]. rewrite Hpm. cbn [fst snd who_of].
           exists (propagate (Comp CDict (become cf (nflags o)) cx chs')), Self. split; [reflexivity|].
           split; [apply propagate_oldz, HO2, OZ_become; [exact HOX|apply (OldZ_OZ _ Ho)]|]. split; [|intro Hx; discriminate].
           rewrite propagate_perase, perase_dict, priority_become, Er. unfold o. cbn [nflags]. f_equal.
           assert (G : priority cf >? priority fo = false) by lia. now rewrite G.
        -- unfold replace_other. cbn [with_flags nflags]. rewrite Hpm. cbn [fst snd who_of].
           exists (Comp CDict (absorb cf (nflags o)) cx chs'), Self. split; [reflexivity|].
           split; [apply HO2, OZ_absorb; exact HOX|]. split; [|intro Hx; discriminate].
           rewrite perase_dict, priority_absorb, Er. f_equal.
           assert (G : priority cf >? priority fo = true) by lia. now rewrite G.
    + (* a whole list *)
      inversion Hs as [|f0 x0 ch0 HOX HFch Hnd0|f0 x0 ch0 HOX HFch HK0]; subst.
      * (* ... never meets a mapping *) rewrite perase_dict, perase_list in Hc. cbn in Hc. contradiction.
      * rewrite upd_p_other by (left; rewrite perase_list; exact I). rewrite !ppri_perase. cbn [nflags].
        cbn [dispatch is_funck is_listk]. apply list_list_z; assumption.
Qed.

(* ---------- whole stages ---------- *)
Lemma merge2_z e root o : OldZ root -> NewZ o -> lcompat (perase root) (perase o) ->
  exists n, merge2 e root o = Ok n /\ OldZ n /\ perase n = upd_p (perase root) (perase o).
Proof.
  intros Hr Hp Hc. unfold merge2.
  rewrite (premerge_plainT e o [] (Some root) (OldZ_PlainT _ (NewZ_oldz _ Hp))). cbn [bind].
  destruct (merge_z (nsize root + nsize o + 1) [] root o Hr Hp Hc ltac:(lia)) as (n & w & E & Hn & En & _).
  rewrite E. cbn [bind fst]. eauto.
Qed.

Definition is_PPD (d : pp) : bool := match d with PPD _ _ => true | _ => false end.

Lemma is_dictk_perase n : OldZ n -> is_dictk n = is_PPD (perase n).
Proof. intro H. inversion H; subst; [reflexivity|rewrite perase_dict; reflexivity|rewrite perase_list; reflexivity]. Qed.

Lemma upd_p_PPD a b : is_PPD a = true -> is_PPD b = true -> is_PPD (upd_p a b) = true.
Proof. destruct a, b; try discriminate. intros _ _. rewrite upd_p_DD. reflexivity. Qed.

Lemma fold_merge2_z e : forall sts root, OldZ root -> Forall NewZ sts -> hcompat (perase root) (map perase sts) ->
  exists n, fold_left (fun acc st => do root <- acc; merge2 e root st) sts (Ok root) = Ok n /\ OldZ n
            /\ perase n = fold_left upd_p (map perase sts) (perase root).
Proof.
  induction sts as [|st sts IH]; intros root Hr HF Hh; cbn [map fold_left bind].
  - eauto.
  - inversion HF as [|? ? Hst HF']; subst. cbn [map hcompat] in Hh. destruct Hh as [Hc Hh].
    destruct (merge2_z e root st Hr Hst Hc) as (n & E & Hn & En). rewrite E, <- En. apply IH; auto. now rewrite En.
Qed.

(* Builder.flatten of documents of the class IS the left fold of upd_p, as long as no mapping meets a list *)
Theorem flatten_prio_l e s0 sts : Forall NewZ (s0 :: sts) -> forallb is_dictk (s0 :: sts) = true -> hcompat (perase s0) (map perase sts) ->
  exists n, flatten e (s0 :: sts) = Ok n /\ OldZ n /\ perase n = fold_left upd_p (map perase sts) (perase s0).
Proof.
  intros HF Hd Hh. inversion HF as [|? ? Hp HF']; subst.
  unfold flatten. rewrite Hd.
  rewrite (premerge_plainT e s0 [] None (OldZ_PlainT _ (NewZ_oldz _ Hp))). cbn [bind].
  rewrite require_all_new_newz by exact Hp.
  destruct (fold_merge2_z e sts s0 (NewZ_oldz _ Hp) HF' Hh) as (n & E & Hn & En). eauto.
Qed.

Theorem flatten_prio e s0 sts : Forall NewZ (s0 :: sts) -> forallb is_dictk (s0 :: sts) = true -> hcompat (perase s0) (map perase sts) ->
  exists n, flatten e (s0 :: sts) = Ok n /\ perase n = fold_left upd_p (map perase sts) (perase s0).
Proof. intros HF Hd Hh. destruct (flatten_prio_l e s0 sts HF Hd Hh) as (n & E & _ & En). eauto. Qed.

(* ---------- histories without lists: the side condition is vacuous ---------- *)
Fixpoint nolist (d : pp) : Prop :=
  match d with
  | PPS _ (AS _) => True
  | PPS _ (AL _) => False
  | PPD _ kv => (fix go (l : list (key * pp)) : Prop := match l with [] => True | (_, c) :: r => nolist c /\ go r end) kv
  end.

Lemma nolist_PPD p kv : nolist (PPD p kv) <-> Forall (fun kc => nolist (snd kc)) kv.
Proof.
  cbn [nolist]. induction kv as [|[k c] r IH]; [split; [constructor|trivial]|]. split.
  - intros [A B]. constructor; [exact A|apply IH; exact B].
  - intro H. inversion H; subst. split; [assumption|apply IH; assumption].
Qed.

Lemma lcompat_nolist : forall b a, nolist a -> nolist b -> lcompat a b.
Proof.
  fix IH 1. intros b a Ha Hb. destruct b as [pn [vn|ln]|pn kv]; [exact I|contradiction|].
  destruct a as [po [vo|lo]|po okv]; [exact I|contradiction|].
  cbn [lcompat]. apply nolist_PPD in Hb. apply nolist_PPD in Ha.
  induction kv as [|[k v] r IHr]; [exact I|]. inversion Hb as [|? ? Hv Hr]; subst. split; [|apply IHr; exact Hr].
  destruct (aget k okv) as [ov|] eqn:E; [|exact I]. apply IH; [|exact Hv]. exact (aget_Forall nolist k okv ov Ha E).
Qed.

Lemma aset_Forall_snd {V} (P : V -> Prop) k v (l : list (key * V)) : P v -> Forall (fun kc => P (snd kc)) l -> Forall (fun kc => P (snd kc)) (aset k v l).
Proof. apply aset_Forall. Qed.

Lemma nolist_upd_p : forall b a, nolist a -> nolist b -> nolist (upd_p a b).
Proof.
  fix IH 1. intros b a Ha Hb. destruct b as [pn vn|pn kv].
  - rewrite upd_p_other by (left; exact I). destruct (ppri a >? ppri (PPS pn vn)); assumption.
  - destruct a as [po vo|po okv].
    + rewrite upd_p_other by (right; exact I). destruct (ppri (PPS po vo) >? ppri (PPD pn kv)); assumption.
    + rewrite upd_p_DD. apply nolist_PPD. apply nolist_PPD in Hb. apply nolist_PPD in Ha.
      revert okv Ha. induction kv as [|[k v] r IHr]; intros okv Ha; cbn [updp_go]; [exact Ha|].
      inversion Hb as [|? ? Hv Hr]; subst. cbn [snd] in Hv.
      destruct (aget k okv) as [ov|] eqn:E.
      * apply IHr; [exact Hr|]. apply aset_Forall_snd; [|exact Ha]. apply IH; [|exact Hv]. exact (aget_Forall nolist k okv ov Ha E).
      * apply IHr; [exact Hr|]. apply aset_Forall_snd; assumption.
Qed.

Lemma hcompat_nolist : forall ds d0, nolist d0 -> Forall nolist ds -> hcompat d0 ds.
Proof.
  induction ds as [|d r IH]; intros d0 H0 HF; [exact I|]. inversion HF; subst. cbn [hcompat]. split; [apply lcompat_nolist; assumption|].
  apply IH; [apply nolist_upd_p; assumption|assumption].
Qed.
