(* Proofs/MergePrio.v — C03 as a refinement: mapping documents whose scalars and mappings carry ARBITRARY priorities
   (no !del / !notnew marks, no lists; !new and safety marks are free), merged into any tree of the same kind, build exactly Spec.UpdateP.upd_p. *)
From AY Require Import Model.Merge Proofs.NodeInd Proofs.FlagsLemmas Proofs.FactsOk Spec.Update Spec.UpdateP
  Proofs.MergePlain Proofs.NotNew Model.Loader Proofs.EvalPlain Proofs.LoaderLemmas Proofs.Laws Proofs.MergeNotNew Proofs.MergeGen.

(* ---------- the priority-carrying image of a tree ---------- *)
Fixpoint perase (n : node) : pp :=
  match n with
  | Leaf _ f v => PPS (priority f) v
  | Comp _ f _ ch => PPD (priority f) ((fix go (l : list (key * node)) := match l with [] => [] | (kk, c) :: r => (kk, perase c) :: go r end) ch)
  end.

Definition pch (l : list (key * node)) : list (key * pp) := map (fun kc => (fst kc, perase (snd kc))) l.

Lemma perase_comp k f x ch : perase (Comp k f x ch) = PPD (priority f) (pch ch).
Proof. cbn [perase]. f_equal. unfold pch. induction ch as [|[kk c] r IH]; cbn; [reflexivity|]. now rewrite IH. Qed.

Lemma se_priority f f' : same_explicit f f' -> priority f = priority f'.
Proof. intros (h & _). unfold priority. now rewrite h. Qed.

Lemma Sim_perase : forall a b, Sim a b -> perase a = perase b.
Proof.
  induction a as [k f v|k f x ch IH] using node_ind'; intros b HS.
  - inversion HS; subst. cbn. f_equal. now apply se_priority.
  - inversion HS as [|k0 f0 f' x0 ch0 ch' Hse HF2]; subst. rewrite !perase_comp. f_equal; [now apply se_priority|].
    unfold pch. clear HS Hse. revert IH. induction HF2 as [|a b l l' [Ek Hs] _ IHl]; intro IH; cbn; [reflexivity|].
    inversion IH as [|? ? Ha Hr]; subst. rewrite Ek, (Ha _ Hs), IHl; auto.
Qed.

Lemma adopt_perase kw c : perase (adopt kw c) = perase c.
Proof. symmetry. apply Sim_perase, adopt_sim. Qed.

Lemma propagate_perase n : perase (propagate n) = perase n.
Proof. symmetry. apply Sim_perase, propagate_sim. Qed.

Lemma perase_with_flags n f : priority f = priority (nflags n) -> perase (with_flags n f) = perase n.
Proof. intro E. destruct n as [k f0 v|k f0 x ch]; cbn [with_flags nflags] in *; [cbn; now rewrite E|]. rewrite !perase_comp. now rewrite E. Qed.

(* ---------- the classes ---------- *)
(* `!new` marks are allowed (they only repeat the default); `!notnew` is not *)
Definition OZ (f : flags) : Prop := f_del f = None.
Definition NZ (f : flags) : Prop := OZ f /\ f_new f <> Some false /\ f_inew f <> Some false.

Inductive OldZ : node -> Prop :=
| OZLeaf f v : OZ f -> OldZ (Leaf LScalar f v)
| OZDict f x ch : OZ f -> Forall (fun kc => OldZ (snd kc)) ch -> NoDup (map fst ch) -> OldZ (Comp CDict f x ch).

Inductive NewZ : node -> Prop :=
| NZLeaf f v : NZ f -> NewZ (Leaf LScalar f v)
| NZDict f x ch : NZ f -> f_idel f = None -> Forall (fun kc => NewZ (snd kc)) ch -> NoDup (map fst ch) -> NewZ (Comp CDict f x ch).

Lemma OldZ_OZ n : OldZ n -> OZ (nflags n).
Proof. intro H; inversion H; auto. Qed.

Lemma NewZ_NZ n : NewZ n -> NZ (nflags n).
Proof. intro H; inversion H; auto. Qed.

Lemma OldZ_children n : OldZ n -> Forall (fun kc => OldZ (snd kc)) (children n).
Proof. intro H; inversion H; cbn; auto. Qed.

Lemma NewZ_children n : NewZ n -> Forall (fun kc => NewZ (snd kc)) (children n).
Proof. intro H; inversion H; cbn; auto. Qed.

Lemma NewZ_oldz : forall n, NewZ n -> OldZ n.
Proof.
  induction n as [k f v|k f x ch IH] using node_ind'; intro H.
  - inversion H as [f0 v0 [HO _]|]; subst. constructor. exact HO.
  - inversion H as [|f0 x0 ch0 [HO _] Hi HF Hnd]; subst. constructor; auto.
    clear H Hnd. induction IH as [|kc r Hkc Hr IHr]; [constructor|]. inversion HF; subst. constructor; auto.
Qed.

Lemma OZ_same_explicit f f' : same_explicit f f' -> OZ f -> OZ f'.
Proof. intros (a & b & c & _) h2. unfold OZ in *. congruence. Qed.

Lemma OldZ_sim : forall a b, Sim a b -> OldZ a -> OldZ b.
Proof.
  induction a as [k f v|k f x ch IH] using node_ind'; intros b HS H.
  - inversion HS as [k0 f0 f' v0 Hse|]; subst. inversion H; subst. constructor. eapply OZ_same_explicit; eauto.
  - inversion HS as [|k0 f0 f' x0 ch0 ch' Hse HF2]; subst.
    pose proof (Forall2_fst_eq _ _ _ HF2) as Ek.
    assert (HF : Forall (fun kc => OldZ (snd kc)) ch -> Forall (fun kc => OldZ (snd kc)) ch').
    { clear - IH HF2. revert IH. induction HF2 as [|a b l l' [_ Hs] _ IHl]; intros IH HF; [constructor|].
      inversion IH; subst. inversion HF; subst. constructor; auto. }
    inversion H as [|f1 x1 ch1 HOX HFch Hnd]; subst.
    constructor; [eapply OZ_same_explicit; eauto|auto|now rewrite <- Ek].
Qed.

Lemma adopt_oldz kw c : OldZ c -> OldZ (adopt kw c).
Proof. apply OldZ_sim, adopt_sim. Qed.

Lemma propagate_oldz n : OldZ n -> OldZ (propagate n).
Proof. apply OldZ_sim, propagate_sim. Qed.

Lemma OldZ_explicit_delete n : OldZ n -> explicit_delete n = false.
Proof. intro H. apply OldZ_OZ in H. unfold OZ in H. unfold explicit_delete. now rewrite H. Qed.

Lemma OldZ_PlainT : forall n, OldZ n -> EvalPlain.PlainT n.
Proof.
  induction n as [k f v|k f x ch IH] using node_ind'; intro H.
  - inversion H; subst. constructor.
  - inversion H as [|f0 x0 ch0 HO HF Hnd]; subst. constructor; [|exact Hnd].
    clear H Hnd. induction IH as [|kc r Hkc Hr IHr]; [constructor|]. inversion HF; subst. constructor; auto.
Qed.

Lemma NZ_allow_new f : NZ f -> allow_new f = true.
Proof. intros (_ & _ & H). unfold allow_new, onone. destruct (f_inew f) as [[|]|]; [reflexivity|congruence|apply default_allow_new]. Qed.

Lemma nwp_newz : forall n pre, NewZ n -> Forall (fun pn => NewZ (snd pn)) (nwp pre n).
Proof.
  induction n as [k f v|k f x ch IH] using node_ind'; intros pre H.
  - cbn. constructor; auto.
  - rewrite nwp_comp. constructor; [exact H|].
    pose proof (NewZ_children _ H) as HF. cbn in HF. clear H.
    induction IH as [|kc r Hkc Hr IHr]; cbn; [constructor|].
    inversion HF; subst. apply Forall_app. split; auto.
Qed.

Lemma require_all_new_newz n p exc inc : NewZ n -> require_all_new n p exc inc = true.
Proof.
  intro H. unfold require_all_new. apply forallb_forall. intros [q m] Hin. cbn.
  assert (Hm : NewZ m).
  { destruct n as [lk f v|ck f x ch].
    - destruct inc; cbn in Hin; [|contradiction]. destruct Hin as [E|[]]. inversion E; subst. exact H.
    - unfold nodes_with_paths in Hin. pose proof (nwp_newz _ p H) as HF. rewrite Forall_forall in HF.
      destruct inc; [apply (HF (q, m)); exact Hin|].
      apply (HF (q, m)). destruct (nwp p (Comp ck f x ch)); cbn in Hin; [contradiction|right; exact Hin]. }
  rewrite (NZ_allow_new _ (NewZ_NZ _ Hm)). reflexivity.
Qed.

Lemma NZ_absorb a b : NZ a -> NZ (absorb a b).
Proof. intros (h2 & h3 & h4). split; [exact h2|split; [exact h3|exact h4]]. Qed.

Lemma OZ_absorb a b : OZ a -> OZ (absorb a b).
Proof. intro h2. exact h2. Qed.

Lemma OZ_become a b : OZ a -> OZ b -> OZ (become a b).
Proof. intros h2 g2. exact g2. Qed.

Lemma priority_absorb a b : priority (absorb a b) = priority a.
Proof. reflexivity. Qed.

Lemma priority_become a b : priority (become a b) = priority b.
Proof. reflexivity. Qed.

Lemma NewZ_with_flags n f : NewZ n -> NZ f -> f_idel f = f_idel (nflags n) -> NewZ (with_flags n f).
Proof. intros H Hf Hi. inversion H; subst; cbn in *; constructor; auto. congruence. Qed.

Lemma OldZ_with_flags n f : OldZ n -> OZ f -> OldZ (with_flags n f).
Proof. intros H Hf. inversion H; subst; cbn; constructor; auto. Qed.

(* ---------- the relation between the spec's result and the model's ---------- *)
Definition RelZ (r : pp) (m : res (node * who)) : Prop :=
  exists n w, m = Ok (n, w) /\ OldZ n /\ perase n = r /\ (w = Other -> NewZ n).

(* one of the two values is not a mapping: the older one survives iff its priority is strictly higher *)
Lemma leaf_merge_z s o : OldZ s -> NewZ o ->
  RelZ (if ppri (perase s) >? ppri (perase o) then perase s else perase o) (Ok (leaf_merge s o)).
Proof.
  intros Hs Ho. unfold leaf_merge, has_priority_over.
  assert (Ps : ppri (perase s) = priority (nflags s)) by (destruct s; [reflexivity|now rewrite perase_comp]).
  assert (Po : ppri (perase o) = priority (nflags o)) by (destruct o; [reflexivity|now rewrite perase_comp]).
  rewrite Ps, Po.
  destruct (priority (nflags s) =? priority (nflags o)) eqn:Eq.
  - assert (G : priority (nflags s) >? priority (nflags o) = false) by lia. rewrite G.
    cbn [replace_other fst]. exists (with_flags o (absorb (nflags o) (nflags s))), Other. split; [reflexivity|].
    assert (Hq : NewZ (with_flags o (absorb (nflags o) (nflags s)))) by (apply NewZ_with_flags; [exact Ho|apply NZ_absorb, NewZ_NZ; exact Ho|reflexivity]).
    split; [apply NewZ_oldz; exact Hq|]. split; [apply perase_with_flags; reflexivity|auto].
  - destruct (priority (nflags s) >? priority (nflags o)) eqn:Eg.
    + cbn [replace_other fst]. exists (with_flags s (absorb (nflags s) (nflags o))), Self. split; [reflexivity|].
      split; [apply OldZ_with_flags; [exact Hs|apply OZ_absorb, OldZ_OZ; exact Hs]|]. split; [apply perase_with_flags; reflexivity|intro Hx; discriminate].
    + cbn [replace_other fst]. exists (with_flags o (absorb (nflags o) (nflags s))), Other. split; [reflexivity|].
      assert (Hq : NewZ (with_flags o (absorb (nflags o) (nflags s)))) by (apply NewZ_with_flags; [exact Ho|apply NZ_absorb, NewZ_NZ; exact Ho|reflexivity]).
      split; [apply NewZ_oldz; exact Hq|]. split; [apply perase_with_flags; reflexivity|auto].
Qed.

(* the loop of the spec, as a top-level function *)
Fixpoint updp_go (kv : list (key * pp)) (acc : list (key * pp)) : list (key * pp) :=
  match kv with
  | [] => acc
  | (k, v) :: rest =>
    match aget k acc with
    | Some ov => updp_go rest (aset k (upd_p ov v) acc)
    | None => updp_go rest (aset k v acc)
    end
  end.

Lemma upd_p_DD po okv pn kv : upd_p (PPD po okv) (PPD pn kv) = PPD (if po >? pn then po else pn) (updp_go kv okv).
Proof.
  cbn [upd_p]. apply f_equal. revert okv. induction kv as [|[k v] rest IH]; intro okv; cbn [updp_go]; [reflexivity|].
  destruct (aget k okv); apply IH.
Qed.

Lemma upd_p_other old new : (match new with PPD _ _ => False | _ => True end) \/ (match old with PPS _ _ => True | _ => False end) ->
  upd_p old new = if ppri old >? ppri new then old else new.
Proof. destruct new, old; cbn; intros [H|H]; try contradiction; reflexivity. Qed.

Lemma pch_aset k n l : pch (aset k n l) = aset k (perase n) (pch l).
Proof. unfold pch. apply (aset_map (fun c => perase c)). Qed.

Lemma pch_aget k l : aget k (pch l) = option_map perase (aget k l).
Proof. unfold pch. apply (aget_map (fun c => perase c)). Qed.

(* the loop over a mapping merged onto a mapping *)
Lemma loop_dict_z rec p f x : forall cho chs,
  (forall k v c, In (k, v) cho -> OldZ c -> RelZ (upd_p (perase c) (perase v)) (rec (p ++ [k]) c v)) ->
  Forall (fun kc => NewZ (snd kc)) cho ->
  OldZ (Comp CDict f x chs) ->
  exists chs', fold_left (merge_step rec [] p) cho (Ok (Comp CDict f x chs)) = Ok (Comp CDict f x chs')
               /\ OldZ (Comp CDict f x chs') /\ pch chs' = updp_go (pch cho) (pch chs).
Proof.
  induction cho as [|[k v] rest IH]; intros chs Hrec HP Hold.
  - cbn. exists chs. auto.
  - cbn [pch map fst snd]. fold (pch rest). cbn [updp_go fold_left].
    inversion HP as [|? ? Hv HPr]; subst. cbn [snd] in Hv.
    assert (Hf : OZ f) by (apply OldZ_OZ in Hold; exact Hold).
    assert (HF : Forall (fun kc => OldZ (snd kc)) chs) by (apply OldZ_children in Hold; exact Hold).
    assert (Hnd : NoDup (map fst chs)) by (inversion Hold; assumption).
    assert (Hstep : forall n', OldZ n' -> NoDup (map fst (aset k n' chs)) ->
               merge_step rec [] p (Ok (Comp CDict f x chs)) (k, v) = Ok (Comp CDict f x (aset k n' chs)) ->
               exists chs', fold_left (merge_step rec [] p) rest (merge_step rec [] p (Ok (Comp CDict f x chs)) (k, v)) = Ok (Comp CDict f x chs')
                            /\ OldZ (Comp CDict f x chs') /\ pch chs' = updp_go (pch rest) (aset k (perase n') (pch chs))).
    { intros n' Hn' Hnd' Heq. rewrite Heq.
      specialize (IH (aset k n' chs)). rewrite pch_aset in IH. apply IH; [|exact HPr|].
      - intros k0 v0 c0 Hin. apply Hrec. right. exact Hin.
      - constructor; auto. apply aset_Forall; auto. }
    rewrite pch_aget.
    destruct (aget k chs) as [c|] eqn:Eg; cbn [option_map].
    + assert (Hc : OldZ c) by (eapply aget_Forall; eauto).
      assert (Hnd' : forall n', NoDup (map fst (aset k n' chs))) by (intro n'; now rewrite (aset_fst k n' c chs Eg)).
      specialize (Hrec k v c (or_introl eq_refl) Hc).
      destruct Hrec as (n & w & Er & Hn & En & Hw). rewrite <- En.
      assert (Hexp : explicit_delete v = false) by (apply OldZ_explicit_delete, NewZ_oldz; exact Hv).
      assert (Hexpn : explicit_delete n = false) by (apply OldZ_explicit_delete; exact Hn).
      destruct w, (is_comp c) eqn:Eic.
      * apply (Hstep n Hn (Hnd' n)).
        unfold merge_step. cbn [bind get_child is_listk]. rewrite Eg. cbn [path_in existsb]. rewrite Er. cbn [bind].
        rewrite Eic, Hexp, !andb_false_r. reflexivity.
      * apply (Hstep n Hn (Hnd' n)).
        unfold merge_step. cbn [bind get_child is_listk]. rewrite Eg. cbn [path_in existsb]. rewrite Er. cbn [bind].
        rewrite Eic. reflexivity.
      * rewrite <- (adopt_perase (child_kwargs (Comp CDict f x chs)) n).
        apply (Hstep (adopt (child_kwargs (Comp CDict f x chs)) n)); [apply adopt_oldz; auto|apply Hnd'|].
        unfold merge_step. cbn [bind get_child is_listk]. rewrite Eg. cbn [path_in existsb]. rewrite Er. cbn [bind].
        rewrite Eic, Hexp, !andb_false_r. reflexivity.
      * rewrite <- (adopt_perase (child_kwargs (Comp CDict f x chs)) n).
        apply (Hstep (adopt (child_kwargs (Comp CDict f x chs)) n)); [apply adopt_oldz; auto|apply Hnd'|].
        unfold merge_step. cbn [bind get_child is_listk]. rewrite Eg. cbn [path_in existsb]. rewrite Er. cbn [bind].
        rewrite Eic, (require_all_new_newz n _ _ _ (Hw eq_refl)), Hexpn, !andb_false_r. reflexivity.
    + rewrite <- (adopt_perase (child_kwargs (Comp CDict f x chs)) v).
      apply (Hstep (adopt (child_kwargs (Comp CDict f x chs)) v)).
      * apply adopt_oldz, NewZ_oldz; exact Hv.
      * rewrite (aset_new_fst k _ chs Eg). apply NoDup_app_snoc; [exact Hnd|].
        intro Hin. apply in_map_iff in Hin. destruct Hin as ([k' c'] & Ek & Hin). cbn in Ek. subst k'.
        rewrite (In_aget k c' chs Hnd Hin) in Eg. discriminate.
      * unfold merge_step. cbn [bind get_child is_listk]. rewrite Eg.
        rewrite require_all_new_newz by exact Hv. reflexivity.
Qed.

Lemma merge_z : forall fuel p s o, OldZ s -> NewZ o -> (nsize o < fuel)%nat ->
  RelZ (upd_p (perase s) (perase o)) (on_merge [] fuel p s o).
Proof.
  induction fuel as [|fu IH]; intros p s o Hs Hp Hlt; [lia|].
  cbn [on_merge].
  destruct s as [lk lf lv | ck cf cx chs].
  - cbn [dispatch]. rewrite upd_p_other by (right; cbn; exact I). apply leaf_merge_z; auto.
  - inversion Hp as [fo v HN|fo xo cho HN Hi HF Hnd]; subst.
    + rewrite upd_p_other by (left; exact I).
      assert (E : dispatch (on_merge [] fu) [] p (Comp ck cf cx chs) (Leaf LScalar fo v) = Ok (leaf_merge (Comp ck cf cx chs) (Leaf LScalar fo v))).
      { inversion Hs; subst; reflexivity. }
      rewrite E. apply leaf_merge_z; auto.
    + rewrite nsize_comp in Hlt.
      set (o := Comp CDict fo xo cho) in *.
      assert (Ho : OldZ o) by (apply NewZ_oldz; exact Hp).
      assert (Hrec : forall k v c, In (k, v) cho -> OldZ c -> RelZ (upd_p (perase c) (perase v)) (on_merge [] fu (p ++ [k]) c v)).
      { intros k v c Hin Hc. rewrite Forall_forall in HF. apply IH; [exact Hc|apply (HF (k, v) Hin)|].
        assert (nsize v <= list_sum (map (fun kc => nsize (snd kc)) cho))%nat; [|lia].
        clear - Hin. unfold list_sum. induction cho as [|[k' v'] r IHr]; [contradiction|]. cbn [map fold_right snd fst]. destruct Hin as [E|Hin]; [inversion E; subst; lia|].
        specialize (IHr Hin). lia. }
      assert (Edo : delete o = false).
      { destruct HN as [Hd _]. unfold OZ in Hd. unfold o, delete. cbn [nflags]. rewrite Hd, Hi. cbn. apply dict_default_delete. }
      inversion Hs as [|f0 x0 ch0 HOX HFch Hnd0]; subst.
      assert (Eo : perase o = PPD (priority fo) (pch cho)) by (unfold o; apply perase_comp).
      rewrite perase_comp, Eo, upd_p_DD.
      cbn [dispatch is_funck is_listk]. unfold comp_merge. unfold o at 1.
      unfold prune. fold o. rewrite Edo.
      destruct (loop_dict_z (on_merge [] fu) p cf cx cho chs Hrec HF Hs) as (chs' & EL & Hold' & Er).
      rewrite EL. cbn [bind].
      unfold has_priority_over. cbn [nflags]. unfold o at 1 2. cbn [nflags].
      assert (Hpm : forall f2, maybe_promote (Comp CDict f2 cx chs') o = (Comp CDict f2 cx chs', false)) by reflexivity.
      assert (HO2 : forall f2, OZ f2 -> OldZ (Comp CDict f2 cx chs')) by (intros f2 H2; inversion Hold'; subst; constructor; auto).
      destruct (priority fo =? priority cf) eqn:Eq.
      * unfold replace_self. cbn [with_flags nflags]. rewrite Hpm. cbn [fst snd who_of].
        exists (propagate (Comp CDict (become cf (nflags o)) cx chs')), Self. split; [reflexivity|].
        split; [apply propagate_oldz, HO2, OZ_become; [exact HOX|apply (OldZ_OZ _ Ho)]|]. split; [|intro Hx; discriminate].
        rewrite propagate_perase, perase_comp, priority_become, Er. unfold o. cbn [nflags]. f_equal.
        assert (G : priority cf >? priority fo = false) by lia. now rewrite G.
      * destruct (priority fo >? priority cf) eqn:Eg.
        -- unfold replace_self. cbn [with_flags nflags]. rewrite Hpm. cbn [fst snd who_of].
           exists (propagate (Comp CDict (become cf (nflags o)) cx chs')), Self. split; [reflexivity|].
           split; [apply propagate_oldz, HO2, OZ_become; [exact HOX|apply (OldZ_OZ _ Ho)]|]. split; [|intro Hx; discriminate].
           rewrite propagate_perase, perase_comp, priority_become, Er. unfold o. cbn [nflags]. f_equal.
           assert (G : priority cf >? priority fo = false) by lia. now rewrite G.
        -- unfold replace_other. cbn [with_flags nflags]. rewrite Hpm. cbn [fst snd who_of].
           exists (Comp CDict (absorb cf (nflags o)) cx chs'), Self. split; [reflexivity|].
           split; [apply HO2, OZ_absorb; exact HOX|]. split; [|intro Hx; discriminate].
           rewrite perase_comp, priority_absorb, Er. f_equal.
           assert (G : priority cf >? priority fo = true) by lia. now rewrite G.
Qed.

(* ---------- whole stages ---------- *)
Lemma merge2_z e root o : OldZ root -> NewZ o ->
  exists n, merge2 e root o = Ok n /\ OldZ n /\ perase n = upd_p (perase root) (perase o).
Proof.
  intros Hr Hp. unfold merge2.
  rewrite (premerge_plainT e o [] (Some root) (OldZ_PlainT _ (NewZ_oldz _ Hp))). cbn [bind].
  destruct (merge_z (nsize root + nsize o + 1) [] root o Hr Hp ltac:(lia)) as (n & w & E & Hn & En & _).
  rewrite E. cbn [bind fst]. eauto.
Qed.

Definition is_PPD (d : pp) : bool := match d with PPD _ _ => true | _ => false end.

Lemma is_dictk_perase n : OldZ n -> is_dictk n = is_PPD (perase n).
Proof. intro H. inversion H; subst; [reflexivity|]. rewrite perase_comp. reflexivity. Qed.

Lemma upd_p_PPD a b : is_PPD a = true -> is_PPD b = true -> is_PPD (upd_p a b) = true.
Proof. destruct a, b; try discriminate. intros _ _. rewrite upd_p_DD. reflexivity. Qed.

Lemma fold_merge2_z e : forall sts root, OldZ root -> Forall NewZ sts ->
  exists n, fold_left (fun acc st => do root <- acc; merge2 e root st) sts (Ok root) = Ok n /\ OldZ n
            /\ perase n = fold_left upd_p (map perase sts) (perase root).
Proof.
  induction sts as [|st sts IH]; intros root Hr HF; cbn [map fold_left bind].
  - eauto.
  - inversion HF as [|? ? Hst HF']; subst.
    destruct (merge2_z e root st Hr Hst) as (n & E & Hn & En). rewrite E, <- En. apply IH; auto.
Qed.

(* Builder.flatten of documents of the class IS the left fold of upd_p *)
Theorem flatten_prio e s0 sts : Forall NewZ (s0 :: sts) -> forallb is_dictk (s0 :: sts) = true ->
  exists n, flatten e (s0 :: sts) = Ok n /\ perase n = fold_left upd_p (map perase sts) (perase s0).
Proof.
  intros HF Hd. inversion HF as [|? ? Hp HF']; subst.
  unfold flatten. rewrite Hd.
  rewrite (premerge_plainT e s0 [] None (OldZ_PlainT _ (NewZ_oldz _ Hp))). cbn [bind].
  rewrite require_all_new_newz by exact Hp.
  destruct (fold_merge2_z e sts s0 (NewZ_oldz _ Hp) HF') as (n & E & _ & En). eauto.
Qed.
