(* Spec/UpdatePM.v — C03's reference semantics with user metadata: the prioritised update of Spec/UpdateP.v in which every node also carries
   its metadata mapping.  Whenever two values meet, the survivor's entries take precedence and the other value's extra keys are kept:
   {**loser, **survivor}.  (Two mappings: the newer one counts as the survivor iff its priority is not lower.) *)
From AY Require Export Model.Node Model.Flags Spec.UpdateP.

Inductive mp :=
| MPS (p : Z) (m : list (Z * Z)) (v : atom)
| MPD (p : Z) (m : list (Z * Z)) (kv : list (key * mp)).

Definition mpri (d : mp) : Z := match d with MPS p _ _ | MPD p _ _ => p end.
Definition mmeta (d : mp) : list (Z * Z) := match d with MPS _ m _ | MPD _ m _ => m end.
Definition with_meta (d : mp) (m : list (Z * Z)) : mp := match d with MPS p _ v => MPS p m v | MPD p _ kv => MPD p m kv end.

Fixpoint upd_pm (old new : mp) {struct new} : mp :=
  match new with
  | MPD pn mn kv =>
    match old with
    | MPD po mo okv =>
      MPD (if po >? pn then po else pn) (if po >? pn then mupd mn mo else mupd mo mn)
          ((fix go (l : list (key * mp)) (acc : list (key * mp)) : list (key * mp) :=
              match l with
              | [] => acc
              | (k, v) :: rest =>
                match aget k acc with
                | Some ov => go rest (aset k (upd_pm ov v) acc)
                | None => go rest (aset k v acc)
                end
              end) kv okv)
    | MPS po mo _ => if po >? pn then with_meta old (mupd mn mo) else with_meta new (mupd mo mn)
    end
  | MPS pn mn _ => if mpri old >? pn then with_meta old (mupd mn (mmeta old)) else with_meta new (mupd (mmeta old) mn)
  end.

(* forgetting the metadata gives the prioritised update *)
Fixpoint forget (d : mp) : pp :=
  match d with
  | MPS p _ v => PPS p v
  | MPD p _ kv => PPD p ((fix go (l : list (key * mp)) := match l with [] => [] | (k, c) :: r => (k, forget c) :: go r end) kv)
  end.

(* the keys of a metadata mapping *)
Definition mkeys (m : list (Z * Z)) : list Z := map fst m.
