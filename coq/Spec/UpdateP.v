(* Spec/UpdateP.v — C03's reference semantics: mapping documents whose nodes (scalars, whole lists AND mappings) carry a priority.
   Two values meeting at a path: two mappings are merged key by key (the result carries the higher of the two priorities);
   in every other case the OLDER value survives iff its priority is STRICTLY higher, otherwise the newer one replaces it. *)
From AY Require Export Model.Node.

(* what is not a mapping is an atom: a scalar, or a list taken as a whole (its plain content) *)
Inductive atom := AS (v : scalar) | AL (l : list plain).

Inductive pp :=
| PPS (p : Z) (v : atom)
| PPD (p : Z) (kv : list (key * pp)).

Definition ppri (d : pp) : Z := match d with PPS p _ | PPD p _ => p end.

Fixpoint upd_p (old new : pp) {struct new} : pp :=
  match new with
  | PPD pn kv =>
    match old with
    | PPD po okv =>
      PPD (if po >? pn then po else pn)
          ((fix go (l : list (key * pp)) (acc : list (key * pp)) : list (key * pp) :=
              match l with
              | [] => acc
              | (k, v) :: rest =>
                match aget k acc with
                | Some ov => go rest (aset k (upd_p ov v) acc)
                | None => go rest (aset k v acc)
                end
              end) kv okv)
    | PPS po _ => if po >? pn then old else new
    end
  | PPS pn _ => if ppri old >? pn then old else new
  end.

(* a mapping never meets a list at the same path (a scalar may meet anything): the side condition under which the implementation
   is the update - where a list meets a mapping the library protects or merges single entries, which is outside this reference *)
Fixpoint lcompat (old new : pp) {struct new} : Prop :=
  match new with
  | PPD _ kv =>
    match old with
    | PPD _ okv =>
      (fix go (l : list (key * pp)) : Prop :=
         match l with
         | [] => True
         | (k, v) :: r => (match aget k okv with Some ov => lcompat ov v | None => True end) /\ go r
         end) kv
    | PPS _ (AL _) => False
    | PPS _ (AS _) => True
    end
  | PPS _ (AL _) => match old with PPD _ _ => False | _ => True end
  | PPS _ (AS _) => True
  end.

(* ... along a whole history *)
Fixpoint hcompat (d0 : pp) (ds : list pp) : Prop :=
  match ds with [] => True | d :: r => lcompat d0 d /\ hcompat (upd_p d0 d) r end.

(* the value at a path *)
Fixpoint pget (d : pp) (q : path) : option pp :=
  match q with
  | [] => Some d
  | k :: r => match d with PPD _ kv => match aget k kv with Some c => pget c r | None => None end | PPS _ _ => None end
  end.
