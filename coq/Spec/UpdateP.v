(* Spec/UpdateP.v — C03's reference semantics: mapping documents whose nodes (scalars AND mappings) carry a priority.
   Two values meeting at a path: two mappings are merged key by key (the result carries the higher of the two priorities);
   in every other case the OLDER value survives iff its priority is STRICTLY higher, otherwise the newer one replaces it. *)
From AY Require Export Model.Node.

Inductive pp :=
| PPS (p : Z) (v : scalar)
| PPD (p : Z) (kv : list (key * pp)).

Definition ppri (d : pp) : Z := match d with PPS p _ | PPD p _ => p end.

Fixpoint upd_p (old new : pp) {struct new} : pp :=
  match new with
  | PPD pn kv =>
    match old with
    | PPD po okv =>
      PPD (if po >? pn then po else pn)
          ((fix go (l : list (key * pp)) (acc : list (key * pp)) : list (key * pp) :=
              match l with
              | [] => acc
              | (k, v) :: rest =>
                match aget k acc with
                | Some ov => go rest (aset k (upd_p ov v) acc)
                | None => go rest (aset k v acc)
                end
              end) kv okv)
    | PPS po _ => if po >? pn then old else new
    end
  | PPS pn _ => if ppri old >? pn then old else new
  end.

(* the value at a path *)
Fixpoint pget (d : pp) (q : path) : option pp :=
  match q with
  | [] => Some d
  | k :: r => match d with PPD _ kv => match aget k kv with Some c => pget c r | None => None end | PPS _ _ => None end
  end.
