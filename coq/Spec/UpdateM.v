(* Spec/UpdateM.v — C04's reference semantics for documents that carry !merge marks: plain data whose lists are decorated with
   the mode in which they meet an older list: replace it (the default) or combine with it index-wise (!merge, or below !merge). *)
From AY Require Export Spec.Update.

Inductive mplain :=
| MS (v : scalar)
| MD (l : list (key * mplain))
| ML (merge : bool) (l : list mplain).

(* forget the decoration *)
Fixpoint mforget (m : mplain) : plain :=
  match m with
  | MS v => PS v
  | MD l => PD ((fix go (l : list (key * mplain)) := match l with [] => [] | (k, c) :: r => (k, mforget c) :: go r end) l)
  | ML _ l => PL ((fix go (l : list mplain) := match l with [] => [] | c :: r => mforget c :: go r end) l)
  end.

Fixpoint upd_m (old : plain) (new : mplain) {struct new} : res plain :=
  match new with
  | MS v => Ok (PS v)
  | MD kv =>
    match old with
    | PD okv =>
      do r <- (fix go (l : list (key * mplain)) (acc : list (key * plain)) : res (list (key * plain)) :=
                 match l with
                 | [] => Ok acc
                 | (k, v) :: rest =>
                   match aget k acc with
                   | Some ov => do m <- upd_m ov v; go rest (aset k m acc)
                   | None => go rest (aset k (mforget v) acc)
                   end
                 end) kv okv;
      Ok (PD r)
    | PL ol =>
      if forallb (fun x => match validate_index (zlen ol) (fst x) true with IdxOk _ => true | _ => false end) kv then
        do r <- (fix go (l : list (key * mplain)) (acc : list plain) : res (list plain) :=
                   match l with
                   | [] => Ok acc
                   | (k, v) :: rest =>
                     match validate_index (zlen acc) k true with
                     | IdxOk i =>
                       match nth_error acc (Z.to_nat i) with
                       | Some ov => do m <- upd_m ov v; go rest (lset (Z.to_nat i) m acc)
                       | None => Err EMerge []
                       end
                     | _ => Err EMerge []
                     end
                   end) kv ol;
        Ok (PL r)
      else Err EMerge []
    | PS _ => Ok (mforget new)
    end
  | ML false _ => Ok (mforget new)            (* a replacing list: whatever was there is gone *)
  | ML true l =>
    match old with
    | PL ol =>
      (* index-wise: existing positions are merged, the surplus is appended *)
      do r <- (fix go (i : nat) (l : list mplain) (acc : list plain) : res (list plain) :=
                 match l with
                 | [] => Ok acc
                 | v :: rest =>
                   match nth_error acc i with
                   | Some ov => do m <- upd_m ov v; go (S i) rest (lset i m acc)
                   | None => go (S i) rest (acc ++ [mforget v])
                   end
                 end) O l ol;
      Ok (PL r)
    | PD okv =>
      (* onto a mapping: the elements are addressed by the integer keys 0, 1, ... *)
      do r <- (fix go (i : Z) (l : list mplain) (acc : list (key * plain)) : res (list (key * plain)) :=
                 match l with
                 | [] => Ok acc
                 | v :: rest =>
                   match aget (KI i) acc with
                   | Some ov => do m <- upd_m ov v; go (i + 1) rest (aset (KI i) m acc)
                   | None => go (i + 1) rest (aset (KI i) (mforget v) acc)
                   end
                 end) 0 l okv;
      Ok (PD r)
    | PS _ => Ok (mforget new)
    end
  end.
