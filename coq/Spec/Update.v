(* Spec/Update.v — C02's reference semantics: a right-biased recursive update on plain data. *)
From AY Require Export Model.Node.

(* replace the i-th element *)
Fixpoint lset {A} (i : nat) (v : A) (l : list A) : list A :=
  match l, i with
  | [], _ => []
  | _ :: r, O => v :: r
  | x :: r, S j => x :: lset j v r
  end.

(* all keys of a mapping merged onto a list of length len are valid strict indices *)
Definition keys_valid (len : Z) (kv : list (key * plain)) : bool :=
  forallb (fun x => match validate_index len (fst x) true with IdxOk _ => true | _ => false end) kv.

(* upd old new, by structural recursion on new; errors are MergeErrors (path not tracked in the spec) *)
Fixpoint upd (old new : plain) {struct new} : res plain :=
  match new with
  | PD kv =>
    match old with
    | PD okv =>
      (* keys of old keep their position; new keys are appended *)
      do r <- (fix go (l : list (key * plain)) (acc : list (key * plain)) : res (list (key * plain)) :=
                 match l with
                 | [] => Ok acc
                 | (k, v) :: rest =>
                   match aget k acc with
                   | Some ov => do m <- upd ov v; go rest (aset k m acc)
                   | None => go rest (aset k v acc)
                   end
                 end) kv okv;
      Ok (PD r)
    | PL ol =>
      if keys_valid (zlen ol) kv then
        do r <- (fix go (l : list (key * plain)) (acc : list plain) : res (list plain) :=
                   match l with
                   | [] => Ok acc
                   | (k, v) :: rest =>
                     match validate_index (zlen acc) k true with
                     | IdxOk i =>
                       match nth_error acc (Z.to_nat i) with
                       | Some ov => do m <- upd ov v; go rest (lset (Z.to_nat i) m acc)
                       | None => Err EMerge []
                       end
                     | _ => Err EMerge []
                     end
                   end) kv ol;
        Ok (PL r)
      else Err EMerge []
    | PS _ => Ok new
    end
  | _ => Ok new
  end.
