(* Spec/UpdateNN.v — C08's reference semantics: the right-biased recursive update that may CHANGE but never CREATE paths
   (what merging a tag-free document marked !notnew at its root must do). *)
From AY Require Export Spec.Update.

(* raw child lookup on plain data: mapping entries by key, list elements by their index 0..n-1 *)
Definition pchild (k : key) (p : plain) : option plain :=
  match p with
  | PD kv => aget k kv
  | PL l => match k with KI i => if 0 <=? i then nth_error l (Z.to_nat i) else None | KS _ => None end
  | PS _ => None
  end.

(* q is a path of p *)
Fixpoint ppath (p : plain) (q : path) : bool :=
  match q with
  | [] => true
  | k :: r => match pchild k p with Some c => ppath c r | None => false end
  end.

(* every path of [new] is a path of [old] *)
Fixpoint subpaths (new old : plain) {struct new} : bool :=
  match new with
  | PS _ => true
  | PD kv =>
    (fix go (l : list (key * plain)) : bool :=
       match l with
       | [] => true
       | (k, v) :: r => (match pchild k old with Some ov => subpaths v ov | None => false end && go r)%bool
       end) kv
  | PL l =>
    (fix go (i : Z) (l : list plain) : bool :=
       match l with
       | [] => true
       | v :: r => (match pchild (KI i) old with Some ov => subpaths v ov | None => false end && go (i + 1) r)%bool
       end) 0 l
  end.

(* upd_nn old new: like Spec.Update.upd, but a key that does not exist yet, or a replacing value that would bring a path
   the old value does not have, is a MergeError *)
Fixpoint upd_nn (old new : plain) {struct new} : res plain :=
  match new with
  | PD kv =>
    match old with
    | PD okv =>
      do r <- (fix go (l : list (key * plain)) (acc : list (key * plain)) : res (list (key * plain)) :=
                 match l with
                 | [] => Ok acc
                 | (k, v) :: rest =>
                   match aget k acc with
                   | Some ov => do m <- upd_nn ov v; go rest (aset k m acc)
                   | None => Err EMerge []
                   end
                 end) kv okv;
      Ok (PD r)
    | PL ol =>
      if keys_valid (zlen ol) kv then
        do r <- (fix go (l : list (key * plain)) (acc : list plain) : res (list plain) :=
                   match l with
                   | [] => Ok acc
                   | (k, v) :: rest =>
                     match validate_index (zlen acc) k true with
                     | IdxOk i =>
                       match nth_error acc (Z.to_nat i) with
                       | Some ov => do m <- upd_nn ov v; go rest (lset (Z.to_nat i) m acc)
                       | None => Err EMerge []
                       end
                     | _ => Err EMerge []
                     end
                   end) kv ol;
        Ok (PL r)
      else Err EMerge []
    | PS _ => match kv with [] => Ok new | _ :: _ => Err EMerge [] end
    end
  | PL _ => if subpaths new old then Ok new else Err EMerge []
  | PS _ => Ok new
  end.
