From AY Require Import Model.Node Spec.Update Spec.UpdateM Proofs.NodeInd Proofs.MergePlain Proofs.MergeMode.

Section MInd.
  Variable P : mplain -> Prop.
  Hypothesis Hs : forall v, P (MS v).
  Hypothesis Hd : forall l, Forall (fun kc => P (snd kc)) l -> P (MD l).
  Hypothesis Hl : forall b l, Forall P l -> P (ML b l).
  Fixpoint mplain_ind' (p : mplain) : P p :=
    match p with
    | MS v => Hs v
    | MD l => Hd l ((fix go (l : list (key * mplain)) : Forall (fun kc => P (snd kc)) l :=
                       match l with [] => Forall_nil _ | kc :: r => Forall_cons kc (mplain_ind' (snd kc)) (go r) end) l)
    | ML b l => Hl b l ((fix go (l : list mplain) : Forall P l :=
                       match l with [] => Forall_nil _ | c :: r => Forall_cons c (mplain_ind' c) (go r) end) l)
    end.
End MInd.

(* no list is in merge mode *)
Fixpoint no_merge (m : mplain) : bool :=
  match m with
  | MS _ => true
  | MD l => (fix go (l : list (key * mplain)) := match l with [] => true | (_, c) :: r => (no_merge c && go r)%bool end) l
  | ML b _ => negb b
  end.

Lemma no_merge_MD l : no_merge (MD l) = forallb (fun kc => no_merge (snd kc)) l.
Proof. cbn [no_merge]. induction l as [|[k c] r IH]; cbn; [reflexivity|]. now rewrite IH. Qed.

(* without !merge marks the decorated update IS the plain update of C02 *)
Theorem upd_m_plain : forall m a, no_merge m = true -> upd_m a m = upd a (mforget m).
Proof.
  induction m as [v|kv IH|b l IH] using mplain_ind'; intros a Hn.
  - destruct a; reflexivity.
  - rewrite no_merge_MD in Hn. rewrite mforget_MD.
    destruct a as [s|okv|ol].
    + cbn [upd_m upd]. now rewrite mforget_MD.
    + rewrite upd_m_MD_PD, upd_PD_PD.
      assert (L : forall acc, m_dgo kv acc = upd_dgo (map (fun kc => (fst kc, mforget (snd kc))) kv) acc).
      { induction IH as [|[k v] rest Hv Hrest IHrest]; intro acc; cbn [m_dgo upd_dgo map fst snd]; [reflexivity|].
        cbn [forallb snd] in Hn. apply andb_true_iff in Hn. destruct Hn as [Hv1 Hn'].
        destruct (aget k acc) as [ov|]; [|now apply IHrest].
        cbn in Hv. rewrite (Hv ov Hv1). destruct (upd ov (mforget v)); cbn [bind]; [now apply IHrest|reflexivity]. }
      now rewrite L.
    + rewrite upd_m_MD_PL, upd_PL_PD.
      assert (Ek : mkeys_valid (zlen ol) kv = keys_valid (zlen ol) (map (fun kc => (fst kc, mforget (snd kc))) kv)).
      { unfold mkeys_valid, keys_valid. clear. induction kv as [|[k v] r IHr]; cbn; [reflexivity|]. now rewrite IHr. }
      rewrite Ek. destruct (keys_valid _ _); [|reflexivity].
      assert (L : forall acc, m_lgo kv acc = upd_lgo (map (fun kc => (fst kc, mforget (snd kc))) kv) acc).
      { clear Ek. induction IH as [|[k v] rest Hv Hrest IHrest]; intro acc; cbn [m_lgo upd_lgo map fst snd]; [reflexivity|].
        cbn [forallb snd] in Hn. apply andb_true_iff in Hn. destruct Hn as [Hv1 Hn'].
        destruct (validate_index (zlen acc) k true); try reflexivity.
        destruct (nth_error acc (Z.to_nat i)) as [ov|]; [|reflexivity].
        cbn in Hv. rewrite (Hv ov Hv1). destruct (upd ov (mforget v)); cbn [bind]; [now apply IHrest|reflexivity]. }
      now rewrite L.
  - cbn [no_merge] in Hn. apply negb_true_iff in Hn. subst b. rewrite mforget_ML. cbn [upd_m]. rewrite upd_other by (left; exact I).
    now rewrite mforget_ML.
Qed.
