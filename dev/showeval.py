#!/venv/bin/python
import sys
sys.path.insert(0, '/verif')
from vlib import common, evalcorr
texts = sys.argv[1:]
r = evalcorr.run_case(texts)
print('impl:', r.get('kind'), r.get('error'), r.get('why'), r.get('calls'))
rc, out = common.coq_eval(evalcorr.HEADER, f'let c := {r["term"]} in (match config (fst (fst (fst c))) (snd (fst (fst c))) (snd (fst c)) with Ok (v, st) => Ok (fst (canon v []), calls (log st)) | Err e p => Err e p end, snd c)')
print(out[-3500:])
