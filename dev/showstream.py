#!/venv/bin/python
"""usage: showstream.py shape text1 text2 ... : model vs implementation on an include layout"""
import sys, os
sys.path.insert(0, '/verif')
from vlib import common, mergecorr, ser
from vlib.props import C06
shape = int(sys.argv[1]); texts = sys.argv[2:]
with C06.Sandbox() as sb:
    names = []
    for j, t in enumerate(texts):
        sb.write(f'd/f{j}.yaml', t); names.append(f'f{j}.yaml')
    if shape == 0:
        main = sb.write('d/main.yaml', 'k: !include [' + ', '.join(names) + ']\nq: {a: 1}\n')
    elif shape == 1:
        main = sb.write('d/main.yaml', '!include [' + ', '.join(names) + ']\n')
    else:
        main = sb.write('d/main.yaml', 'q: {a: 1}\n---\nk: !include [' + ', '.join(names[:2]) + ']\n---\n!include ' + names[-1] + '\n')
    from awesomeyaml.builder import Builder
    b = Builder(); b.add_source(main); b.preprocess()
    intern = ser.Interner()
    stages = [ser.node_term(s, intern, with_src=False) for s in b.stages]
    try:
        b.flatten(); exp = f'(Ok {ser.node_term(b.stages[0], intern, with_src=False)})'
        print('impl:', b.stages[0])
    except Exception as e:
        exp, _ = mergecorr.err_term(e, intern); print('impl error', type(e).__name__, str(e)[:300])
hdr = 'From AY Require Import Model.Stream Model.Eq.\nOpen Scope Z_scope.\n'
import difflib, re
rc, a = common.coq_eval(hdr, f'build_stream {ser.penv_term(intern)} {ser.coq_list(stages)}')
rc, b_ = common.coq_eval(hdr, exp)
norm = lambda t: [l.strip() for l in t.splitlines()]
d = list(difflib.unified_diff(norm(a), norm(b_), 'model', 'impl', n=12, lineterm=''))
print('\n'.join(d[:200]) if d else 'AGREE')
