#!/venv/bin/python
import sys, os, random, json, time
sys.path.insert(0, '/verif')
from vlib import common, gen, evalcorr
n = int(sys.argv[1]); seed = int(sys.argv[2]) if len(sys.argv) > 2 else 1
kw = eval(sys.argv[3]) if len(sys.argv) > 3 else {}
rng = random.Random(seed)
cases = []; skipped = {}; kinds = {}
t0 = time.time()
for i in range(n):
    docs = evalcorr.gen_eval_history(rng, **kw)
    texts = [gen.render(d) for d in docs]
    safes = None
    if kw.get('unsafe') and rng.random() < 0.3:
        safes = [rng.random() < 0.6 for _ in texts]
    r = evalcorr.run_case(texts, safes)
    if not r['ok']:
        skipped[r['why'][:60]] = skipped.get(r['why'][:60], 0) + 1
        continue
    kinds[r['kind']] = kinds.get(r['kind'], 0) + 1
    cases.append(r)
print('impl', time.time() - t0, 'cases', len(cases), 'kinds', kinds)
print('skipped', json.dumps(skipped, indent=1)[:800])
bad, errors, wall, cmd = common.run_case_files('deve', evalcorr.HEADER, [c['term'] for c in cases], evalcorr.CHECK)
print('coq', wall, 'bad', len(bad), 'errors', [e['log'][-600:] for e in errors[:1]])
for i in bad[:int(os.environ.get('SHOW', '5'))]:
    c = cases[i]
    print('---', i, c['kind'], c.get('error'), c.get('safes'))
    for t in c['texts']: print('   ', t)
