#!/venv/bin/python
import sys, json
sys.path.insert(0, '/verif')
from vlib import common, mergecorr
texts = sys.argv[1:]
r = mergecorr.run_case(texts)
print('impl:', r.get('kind'), r.get('error'), r.get('why'))
term = r['term']
# term = (penv, stages, expected)
rc, out = common.coq_eval(mergecorr.HEADER, f'let c := {term} in (flatten (fst (fst c)) (snd (fst c)), snd c)')
print(out[-6000:])
