#!/venv/bin/python
import sys, os, random, json, time
sys.path.insert(0, '/verif')
from vlib import common, gen, mergecorr
prof = sys.argv[1]; n = int(sys.argv[2]); seed = int(sys.argv[3]) if len(sys.argv) > 3 else 1
rng = random.Random(seed)
cases = []; skipped = {}; kinds = {}
t0 = time.time()
for i in range(n):
    docs = gen.gen_history(rng, gen.PROFILES[prof], 1, 4)
    texts = mergecorr.history_texts(docs)
    r = mergecorr.run_case(texts)
    if not r['ok']:
        skipped[r['why'][:60]] = skipped.get(r['why'][:60], 0) + 1
        continue
    kinds[r['kind']] = kinds.get(r['kind'], 0) + 1
    cases.append(r)
print('impl', time.time() - t0, 'cases', len(cases), 'kinds', kinds)
print('skipped', json.dumps(skipped, indent=1)[:1500])
bad, errors, wall, cmd = common.run_case_files('dev', mergecorr.HEADER, [c['term'] for c in cases], mergecorr.CHECK)
print('coq', wall, 'bad', len(bad), 'errors', errors[:1])
for i in bad[:int(os.environ.get('SHOW', '5'))]:
    c = cases[i]
    print('---', i, c['kind'], c.get('error'))
    for t in c['texts']: print('   ', t)
json.dump([dict(texts=cases[i]['texts'], kind=cases[i]['kind'], err=cases[i].get('error')) for i in bad], open('/tmp/bad_merge.json', 'w'), indent=1)
