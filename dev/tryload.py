import sys, random, json
sys.path.insert(0, '/verif')
from vlib import common, gen, loadcorr
n = int(sys.argv[1]); rng = random.Random(int(sys.argv[2]) if len(sys.argv) > 2 else 1)
cases = []; sk = {}
for i in range(n):
    d = gen.gen_doc(rng, loadcorr.LOAD_PROFILE)
    r = loadcorr.run_case(d, safe=rng.random() < 0.8)
    if not r['ok']:
        sk[r['why'][:50]] = sk.get(r['why'][:50], 0) + 1; continue
    cases.append(r)
print(len(cases), json.dumps(sk)[:600])
bad, errors, wall, cmd = common.run_case_files('devl', loadcorr.HEADER, [c['term'] for c in cases], loadcorr.CHECK)
print('bad', len(bad), [e['log'][-500:] for e in errors[:1]])
for i in bad[:6]: print(cases[i]['text'])
