#!/bin/bash
# usage: goal.sh <file.v relative to coq/> <line>  — shows the proof state after <line>
f=$1; n=$2
cd /verif/coq
tmp=$(mktemp -d)
mod=$(basename $f .v)
head -n $n $f > $tmp/$mod.v
echo "Show." >> $tmp/$mod.v
timeout 120 coqc -Q . AY -w -all $tmp/$mod.v 2>&1 | head -${3:-80}
rm -rf $tmp
