import sys, time
sys.path.insert(0, '/verif')
from vlib import common, t2
class R:
    checker_cmds=[]; extra={}
    def oblige(self, n, ok, d=''): print(('OK  ' if ok else 'FAIL'), n, d[:600])
    def count(self, *a): pass
t0=time.time()
t2.run(R(), sys.argv[1:] or ['hpo','eff','ck','repl','adopt','vi','prop'])
print(time.time()-t0)
