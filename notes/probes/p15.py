from p4 import *
print('=====')
run('unsafe data first, then safe call xref', [('d: 5', False), ('x: !call:rec.f {a: !xref d}', True)])
run('safe call xref first, then unsafe data', [('x: !call:rec.f {a: !xref d}', True), ('d: 5', False)])
run('unsafe data first, eval name', [('d: 5', False), ('x: !eval "d"', True)])
run('unsafe nested data first', [('d: {e: 5}', False), ('x: !call:rec.f {a: !xref d.e}', True)])
