# spike: deterministic line-level scheduler for two threads using sys.settrace + a baton
import sys, threading, itertools, os
import awesomeyaml as ay
from awesomeyaml.builder import Builder
WATCH = ('node.py', 'builder.py', 'errors.py')
class Sched:
    def __init__(self, schedule):      # schedule: list of thread indices, one per "step"
        self.schedule = list(schedule); self.pos = 0
        self.cv = threading.Condition(); self.done = set(); self.n = 0
    def turn(self, me):
        with self.cv:
            while True:
                alive = [i for i in range(self.n) if i not in self.done]
                if self.pos >= len(self.schedule): want = alive[0]          # drain deterministically
                else:
                    want = self.schedule[self.pos]
                    if want in self.done: self.pos += 1; self.cv.notify_all(); continue
                if want == me:
                    self.pos += 1; self.cv.notify_all(); return
                self.cv.wait(timeout=5)
    def finish(self, me):
        with self.cv: self.done.add(me); self.cv.notify_all()
def run(schedule, jobs):
    s = Sched(schedule); s.n = len(jobs); out = [None] * len(jobs)
    def worker(i, job):
        def tracer(frame, event, arg):
            fn = frame.f_code.co_filename
            if not fn.endswith(WATCH): return None
            def local(frame, event, arg):
                if event == 'line' and frame.f_code.co_name in ('default_filename', 'default_safe_flag', 'add_source', '__init__'):
                    s.turn(i)
                return local
            return local
        sys.settrace(tracer)
        try: out[i] = job()
        except Exception as e: out[i] = ('ERR', type(e).__name__)
        finally:
            sys.settrace(None); s.finish(i)
    ts = [threading.Thread(target=worker, args=(i, j)) for i, j in enumerate(jobs)]
    for t in ts: t.start()
    for t in ts: t.join(30)
    return out
def job(fn, safe):
    def f():
        b = Builder(); b.add_source(fn, safe=safe); r = b.build()
        return sorted((str(p), n.ayns.source_file, n.ayns.safe) for p, n in r.ayns.nodes_with_paths())
    return f
seq = [job('a.yaml', True)(), job('b.yaml', False)()]
import random
R = random.Random(0); bad = 0; N = 60
for k in range(N):
    schedule = [R.randrange(2) for _ in range(400)]
    out = run(schedule, [job('a.yaml', True), job('b.yaml', False)])
    if out != seq: bad += 1; print('DIFF', out)
print('schedules', N, 'bad', bad)
