import sys
sys.argv = ['x', '0', '0', 'none']
exec(open('q15.py').read().split("bad = 0")[0])
def t(*docs):
    print(docs, '=>', build(list(docs)))
d = '!del {c: ["y", !weak {a: 2}]}'
t('{c: [1, 2]}', d); t('{c: [1, 2]}', d, d)
d = '{c: ["y", !weak {a: 2}]}'
t('{c: [1, 2]}', d); t('{c: [1, 2]}', d, d)
t('{c: []}', d); t('{c: []}', d, d)
t('{}', d); t('{}', d, d)
t('{c: [1]}', '{c: [!weak 5]}')
t('{c: [1]}', '{c: [5, !weak 6]}')
t('{c: [1, 2]}', '{c: [5, !weak 6]}')
t('{c: {a: 1}}', '{c: !del {b: 5, a: !weak 6}}')
t('{c: {a: 1}}', '{c: !del {b: 5, d: !weak 6}}')
