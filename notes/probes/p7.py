import awesomeyaml as ay, sys, subprocess
cases = {
 'chain3': 'a: !xref b\nb: !xref c\nc: [1,2]\nd: !xref a',
 'forward into list': 'a: !xref "l[1]"\nl: [1, {x: 2}]',
 'missing': 'a: !xref nope',
 'self': 'a: !xref a',
 'cycle2': 'a: !xref b\nb: !xref a',
 'cycle via list': 'a: !xref b\nb: [!xref a]',
 'cycle via call arg': 'a: !call:dict {x: !xref a}',
 'neg index': 'a: !xref "l[-1]"\nl: [1, 2]',
}
for k, v in cases.items():
    code = f"import awesomeyaml as ay\ntry:\n    c = ay.Config.build({v!r}, filename='t.yaml'); print(dict(c)); print('alias', c.get('a') is c.get('c') , c.get('d') is c.get('c'))\nexcept Exception as e:\n    print('ERR', type(e).__name__, str(e)[:200].replace(chr(10),' | '))\n"
    try:
        p = subprocess.run([sys.executable, '-c', code], capture_output=True, text=True, env={'PYTHONPATH': __import__('os').environ.get('PYTHONPATH','/repo')}, timeout=10)
        print(k, '=> rc', p.returncode, p.stdout.strip()[:400], p.stderr.strip()[-300:])
    except subprocess.TimeoutExpired:
        print(k, '=> TIMEOUT (hang)')
