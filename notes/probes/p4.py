import awesomeyaml as ay, rec
from awesomeyaml.builder import Builder
def run(t, srcs):
    rec.LOG.clear()
    b = Builder()
    try:
        for s, safe in srcs: b.add_source(s, raw_yaml=True, safe=safe)
        r = b.build()
        c = ay.Config(r)
        print(t, 'OK', dict(c), 'LOG', rec.LOG)
    except Exception as e:
        print(t, 'ERR', type(e).__name__, [type(x).__name__ for x in chain(e)], 'LOG', rec.LOG)
def chain(e):
    out=[]
    while e is not None:
        out.append(e); e = e.__cause__ or e.__context__
    return out
run('unsafe call alone', [('x: !call:rec.f {a: 1}', False)])
run('unsafe tag', [('x: !unsafe {y: !call:rec.f {a: 1}}', True)])
run('safe placeholder then unsafe call', [('x: !required', True), ('x: !call:rec.f {a: 1}', False)])
run('unsafe call then safe arg', [('x: !call:rec.f {a: 1}', False), ('x: {a: 2}', True)])
run('safe call then unsafe arg', [('x: !call:rec.f {a: 1}', True), ('x: {a: 2}', False)])
run('safe call then unsafe name', [('x: !call:rec.f {a: 1}', True), ('x: "rec.f"', False)])
run('safe call unsafe xref data', [('x: !call:rec.f {a: !xref d}', True), ('d: 5', False)])
run('safe eval unsafe data', [('x: !eval "d"', True), ('d: 5', False)])
run('unsafe call f: required', [('x: {f: !required }', True), ('x: {f: !call:rec.f {a: 1}}', False)])
run('placeholder under unsafe call', [('x: !call:rec.f {a: 1}', False), ('x: {f: !required }', True)])
run('safe dict then unsafe call', [('x: {a: 3}', True), ('x: !call:rec.f {a: 1}', False)])
run('safe del then unsafe call', [('x: !call:rec.f {a: 1}', False), ('x: !merge {b: 2}', True)])
