import sys
sys.argv = ['x', '0', '0', 'none']
exec(open('q15.py').read().split("bad = 0")[0])
def t(*docs):
    print(docs, '=>', build(list(docs)))
t('{a: {b: [1]}}', '{a: {b: !weak [2, !weak "x"]}}')
t('{a: {b: [1]}}', '{a: !unsafe {b: !weak [2, !weak "x"]}}')
t('{a: {b: [1]}}', '!unsafe {a: {b: !weak [2, !weak "x"]}}')
t('{a: {b: [1]}}', '{a: {b: !weak [2, !unsafe "x"]}}')
t('{b: [1]}', '{b: !weak [2, "x"]}')
t('{b: [1]}', '!new {b: !weak [2, "x"]}')
t('{b: [1]}', '!unsafe {b: !weak [2, "x"]}')
t('{b: [1]}', '!unsafe {b: !weak [2]}')
t('{b: [1]}', '!unsafe {b: !weak [2, 3, 4]}')
t('{b: [1]}', '{b: !weak [2, 3, 4]}')
t('{b: [1]}', '{c: {b: !weak [2, 3, 4]}}')
t('{b: []}', '{b: [3]}')
t('{b: []}', '!unsafe {b: [3]}')
t('{b: !del []}', '!unsafe {b: [3]}')
