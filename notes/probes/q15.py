import random, sys, json
import awesomeyaml as ay
from awesomeyaml.builder import Builder
from awesomeyaml import errors
seed = int(sys.argv[1]); N = int(sys.argv[2]); MODE = sys.argv[3]
R = random.Random(seed)
KEYS = ['a', 'b', 'c']
TAGS = [None]*6 + ['!force', '!weak', '!del', '!merge']
# node = (tag, kind, payload)
def gen(d, top=False, tags=TAGS):
    tag = R.choice(tags)
    r = R.random()
    if top or (d > 0 and r < 0.5):
        ks = R.sample(KEYS, R.choice([0, 1, 2, 2, 3]))
        return (tag if not top else R.choice([None]*4+['!del', '!force']), 'd', [(k, gen(d - 1, tags=tags)) for k in ks])
    if d > 0 and r < 0.7:
        return (tag, 'l', [gen(d - 1, tags=tags) for _ in range(R.choice([0, 1, 2, 3]))])
    return (tag if tag not in ('!del', '!merge') else None, 's', R.choice([1, 2, 3, 'x', 'y']))
def render(n):
    tag, kind, p = n
    t = (tag + ' ') if tag else ''
    if kind == 'd': return t + '{' + ', '.join(f'{k}: {render(v)}' for k, v in p) + '}'
    if kind == 'l': return t + '[' + ', '.join(render(v) for v in p) + ']'
    return t + json.dumps(p)
def build(texts):
    b = Builder()
    for t in texts: b.add_source(t, raw_yaml=True)
    try:
        r = b.build()
        return ('ok', plain(r) if r is not None else {})
    except errors.Error as e:
        return ('err', type(e).__name__)
    except RecursionError:
        return ('err', 'Recursion')
def plain(n):
    from awesomeyaml.nodes.composed import ComposedNode
    if isinstance(n, ComposedNode):
        if isinstance(n, dict): return {pk(k): plain(v) for k, v in n._children.items()}
        return [plain(v) for v in n._children.values()]
    v = n.ayns.native_value if hasattr(n, 'ayns') else n
    return v
def pk(k):
    return k.ayns.native_value if hasattr(k, 'ayns') else k
def wrap(n, k): return (None, 'd', [(k, n)])
def mark(n, m):
    tag, kind, p = n
    if kind == 'd': p = [(k, mark(v, m)) for k, v in p]
    elif kind == 'l': p = [mark(v, m) for v in p]
    if tag is None and R.random() < 0.3: tag = m
    return (tag, kind, p)
def has_remove_idiom(n):
    tag, kind, p = n
    if tag == '!del' and kind in 'dl' and not p: return True
    if kind == 'd': return any(has_remove_idiom(v) for _, v in p)
    if kind == 'l': return any(has_remove_idiom(v) for v in p)
    return False
bad = 0
for i in range(N):
    docs = [gen(3, True) for _ in range(R.choice([1, 2, 2, 3, 4]))]
    base = build([render(d) for d in docs])
    if MODE == 'wrap':
        k = R.choice(KEYS)
        other = build([render(wrap(d, k)) for d in docs])
        exp = ('ok', {k: base[1]}) if base[0] == 'ok' else base
    elif MODE == 'idem':
        if any(has_remove_idiom(d) for d in docs): continue
        other = build([render(d) for d in docs + [docs[-1]]]); exp = base
    elif MODE == 'empty':
        j = R.randrange(len(docs) + 1)
        other = build([render(d) for d in docs[:j]] + ['{}'] + [render(d) for d in docs[j:]]); exp = base
    elif MODE == 'flag':
        m = R.choice(['!unsafe', '!new'])
        other = build([render(mark(d, m)) for d in docs]); exp = base
    elif MODE == 'det':
        other = build([render(d) for d in docs]); exp = base
    if other != exp:
        bad += 1
        if bad <= 5: print('MISMATCH', MODE, [render(d) for d in docs], '\n   base', base, '\n   other', other)
print(MODE, 'bad', bad, 'of', N)
