import awesomeyaml as ay, os
def show(t, *a, **k):
    try: print(t, dict(ay.Config.build(*a, **k)))
    except Exception as e: print(t, 'ERR', type(e).__name__, str(e)[:300].replace('\n',' | '))
show('sources', 'inc/f1.yaml', 'inc/f2.yaml')
show('multi', 'inc/main_multi.yaml')
show('include list', 'inc/main_inc.yaml')
show('n includes', 'inc/main_inc2.yaml')
show('key include', 'inc/main_key.yaml')
show('over', 'inc/over.yaml')
show('over2', 'inc/over2.yaml')
show('missing', '!include [f1.yaml, nope.yaml]', filename='inc/x.yaml')
show('missing2', 'k: !include nope.yaml', filename='inc/x.yaml')
