from p1 import *
show('prev list elem', 'l: [1, 2, 3]', 'z: !prev "l[0]"')
show('prev list elem mid', 'l: [[1], [2], [3]]', 'z: !prev "l[1]"')
show('append into list elem', 'l: [[1], [2], [3]]', 'l: !merge {0: !append [9]}')
show('extend into list elem', 'l: [[1], [2], [3]]', 'l: !merge {0: !extend [9]}')
show('del list elem', 'l: [1, 2, 3]', 'l: !merge {0: !del }')
show('del list elem dict', 'l: [{a: 1}, {b: 2}, {c: 3}]', 'l: {0: !del }')
