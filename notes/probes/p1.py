import awesomeyaml as ay, yaml, traceback
from awesomeyaml.builder import Builder
def build(*docs):
    b = Builder()
    for d in docs: b.add_source(d, raw_yaml=True)
    return b.build()
def nat(n): return n.ayns.native_value if n is not None else None
def show(title, *docs):
    print('---', title)
    try:
        r = build(*docs); print('  merged:', nat(r))
        print('  config:', dict(ay.Config(r)))
    except Exception as e:
        print('  ERR', type(e).__name__, str(e).split('\n')[0][:200])
# C01 list dup
show('C01 nested list under tagged mapping', 'a: !force {b: {c: [1,2,3]}}')
show('C01 nested list under tagged mapping depth1', 'a: !force {c: [1,2,3]}')
show('C01 del', 'a: !del {b: {c: [1,2]}}')
show('C01 plain', 'a: {b: {c: [1,2,3]}}')
show('C01 nested map under tagged', 'a: !force {b: {c: {d: 1}}}')
