import fixes
import awesomeyaml as ay, copy, pickle
import awesomeyaml.yaml as ayy
def rt(src):
    try:
        docs = list(ayy.parse(src))
        out = ayy.dump(docs[0])
        docs2 = list(ayy.parse(out))
        out2 = ayy.dump(docs2[0])
        print(repr(src), '->', repr(out), 'same' if out == out2 else 'DIFF '+repr(out2))
    except Exception as e:
        print(repr(src), 'ERR', type(e).__name__, str(e).replace('\n', ' | ')[:200])
for s in ['a: !del []', 'a: !del {}', 'a: !null', 'a: !null:%s' % ayy._encode_metadata({'priority': 1}), 'a: !force 1', 'a: !weak ~', 'a: !force',
  'a: !del {b: !force [1, 2]}', 'a: !weak {b: {c: 1}}', 'a: !merge [1, 2]', "a: !metadata{{ 'k': [1,2] }} 5",
  'a: !call:dict {x: 1}', 'a: !call dict', 'a: !bind:dict [1, 2]', 'a: !xref b.c', 'a: !eval "1+2"', 'a: !path:parent [x, y]', 'a: !path x', 'a: !required',
  'a: !unsafe {b: !notnew 1}', 'a: "f\'{b}\'"', "a: f'{b}'", 'a: !fstr "x{b}"', 'a: !append [1]', 'a: !extend [1]', 'a: !prev b', 'a: !include x.yaml', 'a: !include [x.yaml, y.yaml]', 'a: "123"', 'a: !force "true"',
  'a: !clear', 'a: !import os.path', 'a: !rec x.yaml', 'a: !eval |\n  x = 1\n  x + 1', 'a: 1.5', 'a: [1, [2, {b: ~}]]', "a: !force{{ 'u': 1 }} 3", 'a: !new {b: 1}', 'a: !notnew [1]', 'a: !merge {b: !del [1]}']:
    rt(s)
