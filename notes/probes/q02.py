import random, sys, yaml, json
import awesomeyaml as ay
from awesomeyaml.builder import Builder
from awesomeyaml import errors
R = random.Random(int(sys.argv[1]) if len(sys.argv) > 1 else 0)
KEYS = ['a', 'b', 'c', 0, 1, 2]
def gen(d, top=False):
    r = R.random()
    if top or (d > 0 and r < 0.45):
        n = R.choice([0, 1, 2, 2, 3])
        ks = R.sample(KEYS, n)
        return {k: gen(d - 1) for k in ks}
    if d > 0 and r < 0.7:
        return [gen(d - 1) for _ in range(R.choice([0, 1, 2, 3]))]
    return R.choice([1, 2, 'x', 'y', None, True, 1.5])
class MErr(Exception): pass
def vidx(i, n):
    if not isinstance(i, int) or isinstance(i, bool): raise MErr()
    if abs(i) > n or i == n: raise MErr()
    return i + n if i < 0 else i
def upd(a, b):
    if isinstance(a, dict) and isinstance(b, dict):
        out = dict(a)
        for k, v in b.items():
            out[k] = upd(out[k], v) if k in out else v
        return out
    if isinstance(a, list) and isinstance(b, dict):
        for k in b: vidx(k, len(a))
        out = list(a)
        for k, v in b.items():
            out[vidx(k, len(a))] = upd(out[vidx(k, len(a))], v)
        return out
    return b
def build(docs):
    b = Builder()
    for d in docs: b.add_source(yaml.safe_dump(d, sort_keys=False), raw_yaml=True)
    return b.build()
bad = 0
N = int(sys.argv[2]) if len(sys.argv) > 2 else 2000
for i in range(N):
    docs = [gen(3, True) for _ in range(R.choice([1, 2, 2, 3, 4]))]
    try:
        exp = docs[0]
        for d in docs[1:]: exp = upd(exp, d)
    except MErr:
        exp = 'MergeError'
    try:
        r = build(docs); got = r.ayns.native_value if r is not None else {}
        gotc = json.loads(json.dumps(dict(ay.Config(r)) if r is not None else {}, default=str))
    except errors.MergeError:
        got = 'MergeError'
    except Exception as e:
        got = 'OTHER ' + type(e).__name__ + str(e)[:80]
    if got != exp or (exp != 'MergeError' and list(map(str, got)) != list(map(str, exp))):
        bad += 1
        if bad <= 6: print('MISMATCH', json.dumps(docs), '\n   exp', exp, '\n   got', got)
print('bad', bad, 'of', N)
