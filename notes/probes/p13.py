import fixes
import awesomeyaml as ay, copy, pickle, rec
import awesomeyaml.yaml as ayy
from awesomeyaml.builder import Builder
def info(n, path=''):
    out = [(path, type(n).__name__, {k: v for k, v in n.ayns.node_info.items() if k not in ('idx',) and v not in (None, {}, )})]
    if hasattr(n, '_children'):
        for k, c in n._children.items():
            out += info(c, f'{path}/{k}')
    return out
src = "a: !force {b: [1, !weak 2], c: !del {d: !unsafe 5}}\ne: !call:rec.f {x: !xref a.b}\nf: !metadata{{ 'u': 1 }} {g: !notnew 3}\nh: !path:parent [x]\ni: !merge [1]"
b = Builder(); b.add_source(src, raw_yaml=True, filename='t.yaml'); t = b.build()
i0 = info(t)
for name, fn in [('deepcopy', copy.deepcopy), ('pickle', lambda x: pickle.loads(pickle.dumps(x)))]:
    t2 = fn(t)
    i2 = info(t2)
    print(name, 'EQUAL' if i0 == i2 else 'DIFF')
    if i0 != i2:
        for x, y in zip(i0, i2):
            if x != y: print('   ', x, '\n    ', y)
    print('  eval eq', dict(ay.Config(t)) == dict(ay.Config(t2)))
print("==== C11")
c = ay.Config.build("a: {b: [1, {c: 2}], _p: 3}\nn: ~\nt: true\ns: '1'\nf: 1.5", filename='t.yaml')
def walk(o, p=''):
    print(p, type(o).__name__, end='; ')
    if isinstance(o, dict):
        for k, v in o.items(): walk(k, p+'/key'); walk(v, p+'/'+str(k))
    elif isinstance(o, list):
        for i, v in enumerate(o): walk(v, p+f'[{i}]')
walk(c); print()
print(c.a is c['a'], c.a.b[1].c)
c2 = ay.Config(c.ayns.source); print('re-eval equal', c2 == c)
c.a.b.append(5); c2 = ay.Config(c.ayns.source); print('after mutate', dict(c2))
print("==== C13")
def sig(a, b=2, *args, k=3, **kw): return ('sig', a, b, args, k, kw)
rec.sig = sig
for s in ['x: !call:rec.sig {0: 1, 1: 5}', 'x: !call:rec.sig {0: 1, k: 9, z: 7}', 'x: !call:rec.sig {1: 5, a: 1}', 'x: !call:rec.sig {0: 1, 2: 7}', 'x: !call:rec.sig {0: 1, 1: 2, 2: 7, 3: 8}',
          'x: !call:rec.sig [1, 2, 3]', 'x: !call:rec.sig 4', 'x: !call:rec.sig {5: 1, 0: 2}', 'x: !bind:rec.sig {0: 1, k: 2}', 'x: !call:rec.sig {0: 1, a: 2}']:
    try: print(s, '=>', ay.Config.build(s, filename='t.yaml').x)
    except Exception as e: print(s, 'ERR', type(e).__name__, str(e.__cause__)[:100])
for docs in [('x: !call:rec.sig {a: 1, b: 2}', 'x: {b: 3}'), ('x: !call:rec.sig {a: 1, b: 2}', 'x: [7]'), ('x: !call:rec.sig {a: 1, b: 2}', 'x: rec.f'), ('x: !call:rec.sig {a: 1, b: 2}', 'x: !call:rec.f {q: 1}'),
             ('x: !call:rec.sig {a: 1, b: 2}', 'x: !call:rec.sig {a: 5}'), ('x: !call:rec.sig {a: 1, b: 2}', 'x: !call:rec.sig:%s {a: 5}' % ayy._encode_metadata({'delete': False})), ('x: !call:rec.sig {a: 1, b: 2}', 'x: !bind:rec.sig {a: 5}'), ('x: {a: 1}', 'x: !call:rec.sig {b: 2}')]:
    try: print(docs, '=>', ay.Config.build(*docs, filename='t.yaml').x)
    except Exception as e: print(docs, 'ERR', type(e).__name__, str(e.__cause__)[:100])
