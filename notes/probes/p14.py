import awesomeyaml as ay
from awesomeyaml.nodes import ConfigDict
for src in ['_p: 3\nq: 1', 'a: {_p: 3, q: 1}', 'a: !force {_p: 3}', '_a: {_b: [1]}', '1: x\n2.5: y\ntrue: z', 'items: 1', 'a: {keys: 1}', '__class__: 1', '_children: 5', 'a: {_children: 5, b: 1}','a: {_delete: true, l: [1]}\n', 'ayns: 3', 'a: {ayns: 3}']:
    try:
        c = ay.Config.build(src, filename='t.yaml'); print(repr(src), '=>', dict(c))
    except Exception as e: print(repr(src), 'ERR', type(e).__name__, str(e).replace('\n',' | ')[:160])
