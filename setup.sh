#!/bin/bash
# Build the Coq development from files on disk (offline). Facts are regenerated from /repo.
set -e
cd "$(dirname "$0")"
export PYTHONPATH=/repo PYTHONHASHSEED=0
# gate: no axioms / admits / disabled checks anywhere in the development
if grep -rnE '\b(Admitted|admit|Axiom|Parameter|Conjecture|Admit Obligations)\b|Unset Guard|bypass_check|type-in-type|impredicative-set' coq --include='*.v' | grep -v '^coq/Gen/'; then
  echo "forbidden construct found"; exit 1
fi
/venv/bin/python tools/extract_facts.py coq/Gen/Facts.v
/venv/bin/python tools/translate_src.py coq/Gen/Src.v
/venv/bin/python tools/translate_merge.py coq/Gen/SrcMerge.v
/venv/bin/python tools/translate_eval.py coq/Gen/SrcEval.v
cd coq
coq_makefile -f _CoqProject -o Makefile > /dev/null
timeout 3000 make -k -j16 2>&1 | tail -5
