#!/usr/bin/env python3
"""Run every quick check on the UNCHANGED tree under several generator seeds, in parallel (private build / evidence / replay directories per
worker; /repo is only read).  Any VIOLATION line here is an alarm on the unchanged tree: a genuine defect or a false alarm to be corrected.
usage: multiseed.py [-j N] [-t quick|thorough] seed [seed ...]"""
import sys, os, json, subprocess, shutil, threading, queue

VERIF = os.path.dirname(os.path.dirname(os.path.abspath(__file__)))   # the tree this script belongs to (a snapshot under vp run works on itself)
args = sys.argv[1:]
N, tier = 6, 'quick'
while args and args[0] in ('-j', '-t'):
    if args[0] == '-j':
        N = int(args[1])
    else:
        tier = args[1]
    args = args[2:]
seeds = args or ['21', '22']
ids = [c['property_id'] for c in json.load(open(f'{VERIF}/MANIFEST.json'))['checks']]
q = queue.Queue()
for s in seeds:
    for c in ids:
        q.put((s, c))
lock = threading.Lock()
out = []


def worker(i):
    coq, ev, rp = f'/tmp/mseed_coq{i}', f'/tmp/mseed_ev{i}', f'/tmp/mseed_rp{i}'
    for d in (coq, ev, rp):
        shutil.rmtree(d, ignore_errors=True)
    shutil.copytree(f'{VERIF}/coq', coq, symlinks=True)
    try:
        while True:
            try:
                s, c = q.get_nowait()
            except queue.Empty:
                return
            env = {**os.environ, 'VERIF_COQ_DIR': coq, 'VERIF_EVIDENCE_DIR': ev, 'VERIF_REPLAY_DIR': rp, 'VERIF_SEED': s}
            p = subprocess.run([f'{VERIF}/check', c, '--tier', tier], capture_output=True, text=True, env=env)
            viol = [l for l in p.stdout.splitlines() if l.startswith('VIOLATION')]
            line = f'seed={s} {c} rc={p.returncode} {(p.stdout.splitlines() or ["(no output) " + p.stderr[-200:]])[-1]}'
            keep = []
            for v in viol:
                path = v.split('replay=')[1].split()[0]
                dst = f'/tmp/mseed_alarm_{s}_{c}_{os.path.basename(path)}'
                try:
                    shutil.copy(path, dst)
                    keep.append(dst)
                except Exception:
                    pass
            with lock:
                out.append((s, c, p.returncode, line, keep))
                print(line[:220] + (f'  ALARM -> {keep}' if p.returncode else ''), flush=True)
            shutil.rmtree(rp, ignore_errors=True)
    finally:
        for d in (coq, ev, rp):
            shutil.rmtree(d, ignore_errors=True)


ths = [threading.Thread(target=worker, args=(i,)) for i in range(N)]
for t in ths:
    t.start()
for t in ths:
    t.join()
bad = [o for o in out if o[2] != 0]
print(f'{len(out)} runs, {len(bad)} with a non-zero exit')
