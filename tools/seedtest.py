#!/usr/bin/env python3
"""Apply a seeded patch to /repo, run the given checks, undo. usage: seedtest.py <seed dir> [check ids...]
Prints one line per check: DETECTED (exit 1 + VIOLATION) / MISSED."""
import sys, os, subprocess, json
seed = sys.argv[1]
meta = json.load(open(os.path.join(seed, 'meta.json')))
checks = sys.argv[2:] or meta.get('checks', [meta['property']])
patch = os.path.join(seed, 'patch.diff')
subprocess.run(['git', '-C', '/repo', 'status', '--short'], check=True)
r = subprocess.run(['git', '-C', '/repo', 'apply', patch])
if r.returncode != 0:
    sys.exit('patch does not apply')
import shutil
saved = {}
for c in checks:
    ev = f'/verif/evidence/{c}.json'
    if os.path.exists(ev):
        saved[c] = open(ev).read()
try:
    for c in checks:
        p = subprocess.run(['/verif/check', c, '--tier', 'quick'], capture_output=True, text=True, env={**os.environ, 'VERIF_SEED': os.environ.get('VERIF_SEED', '12345')})
        viol = [l for l in p.stdout.splitlines() if l.startswith('VIOLATION')]
        print(f"{os.path.basename(seed)} vs {c}: {'DETECTED' if p.returncode == 1 and viol else 'MISSED'} exit={p.returncode} {viol[:2]} {p.stdout.splitlines()[-1] if p.stdout else ''}")
finally:
    for c, txt in saved.items():
        open(f'/verif/evidence/{c}.json', 'w').write(txt)
    subprocess.run(['git', '-C', '/repo', 'checkout', '--', '.'])
    subprocess.run(['git', '-C', '/repo', 'status', '--short'])
