# per-fixture isolated runner: python runfix.py <repo_dir> <out.json>
import sys, os, subprocess, json, glob
from concurrent.futures import ThreadPoolExecutor
repo, out = sys.argv[1], sys.argv[2]
files = sorted(glob.glob(os.path.join(repo, 'tests/yaml_files/**/*_test.yaml'), recursive=True))
code = r'''
import sys, unittest
sys.path.insert(0, %r)
from tests.yaml_files_test import YamlFileTest
t = YamlFileTest.make_test_case_type(test_file=sys.argv[1], class_arg='x')('test')
r = unittest.TestResult(); t.run(r)
print('PASS' if r.wasSuccessful() else 'FAIL')
'''
def run(f):
    try:
        p = subprocess.run(['/venv/bin/python', '-c', code % repo, f], capture_output=True, text=True, timeout=60, cwd=repo, env={'PYTHONPATH': repo, 'PATH': os.environ['PATH']})
        last = p.stdout.strip().split('\n')[-1] if p.stdout.strip() else ''
        return os.path.relpath(f, repo), (last if p.returncode == 0 else f'CRASH({p.returncode})')
    except subprocess.TimeoutExpired:
        return os.path.relpath(f, repo), 'TIMEOUT'
with ThreadPoolExecutor(16) as ex:
    res = dict(ex.map(run, files))
json.dump(res, open(out, 'w'), indent=1)
from collections import Counter
print(Counter(res.values()))
for k, v in res.items():
    if v != 'PASS': print(v, k)
