#!/bin/bash
# run every claimed check (quick tier) on the current tree; prints one summary line per check
cd /verif
ids=$(python3 -c "import json; print(' '.join(c['property_id'] for c in json.load(open('MANIFEST.json'))['checks']))")
for id in $ids; do
  out=$(./check $id --tier ${1:-quick} 2>&1)
  rc=$?
  echo "$id rc=$rc $(echo "$out" | tail -1)"
  echo "$out" | grep -E "^(VIOLATION|KNOWN-FINDING)" | cut -c1-160
done
