#!/usr/bin/env python3
"""print the prompt given to a mutation sub-agent for property <id> (only the property text and its own worktree)"""
import json, sys
pid = sys.argv[1]
wt = f'/tmp/wt_{pid}'
p = [json.loads(l) for l in open('/verif/properties.jsonl') if json.loads(l)['id'] == pid][0]
hint = sys.argv[2] if len(sys.argv) > 2 else ''
print(f"""You are helping to test a verification effort by producing realistic faulty changes ("seeded defects") to a Python library. Work ONLY inside the git worktree {wt} (a checkout of the library awesomeyaml — a YAML config library with custom tags, priority-based multi-file merging, includes, cross-references and lazy evaluation). Do not read or touch /verif or /repo. Run the library with `PYTHONPATH={wt} PYTHONHASHSEED=0 /venv/bin/python`.

The property to break:

{p['id']} — {p['title']}
Statement: {p['statement']}
Quantifier: {p['quantifier']['text']}
Code it is anchored in: {', '.join(p['anchors']['files'])}

Useful API: `from awesomeyaml.builder import Builder; b = Builder(); b.add_source(yaml_text, raw_yaml=True, filename='x'); ...; root = b.build()` gives the merged node tree (a ConfigDict; children in `node._children`, raw flags in `node.ayns.node_info`); `from awesomeyaml.config import Config; cfg = Config(root)` (or `Config.build(text1, text2, raw_yaml=True, filename='x')`) evaluates it to plain data. Call targets for `!call:mod.func {{args}}` must be importable (you may put a small helper module next to your demo and add its directory to sys.path). NOTE: run anything that uses `!eval` in a subprocess with a timeout (bytecode rewriting can crash the interpreter on exotic programs). {hint}

TASK: produce TWO different, independent faulty changes (at different code sites / of different nature), each of which:
 (1) is a small, realistic edit a developer could plausibly make (an off-by-one, a wrong comparison, a dropped/reordered statement, a wrong default, a cache/aliasing slip, a "harmless" refactor that is not) to files under awesomeyaml/ — no changes to tests;
 (2) still imports and still passes the existing test-suite exactly as before: run `cd {wt} && /venv/bin/python -m pytest -q -p no:cacheprovider --timeout=900 --continue-on-collection-errors 2>&1 | tail -3` before and after (the unchanged tree prints "262 passed ... 1 error" — that 1 error is pre-existing and expected); the set of passing tests must not shrink;
 (3) breaks the property above, but only in situations that need something specific to manifest — a particular multi-step sequence, an unusual input, a particular interleaving or order, or two cooperating code sites that each look fine alone — NOT something that ordinary use exposes at once;
 (4) comes with a demonstration script using only the public API that exits 0 on the unchanged library and exits non-zero (failed assertion) with the change.

Deliverables (inside {wt}): patch1.diff and demo1.py, patch2.diff and demo2.py. Each patchN.diff must be produced with `git diff -- awesomeyaml > patchN.diff` with ONLY that change applied (do `git checkout -- awesomeyaml` between the two), must apply cleanly to a clean checkout with `git apply`, and at the end leave the worktree's awesomeyaml/ directory clean (unchanged). NOTE: several source files (builder.py, config.py, namespace.py, nodes/composed.py, nodes/include.py, nodes/tuple.py) use CRLF line endings — edit only the lines you need and preserve the line endings, otherwise the diff rewrites the whole file (check that your diff is small).

Verify everything yourself: for each patch run the demo on the clean tree (must exit 0), apply the patch, run the demo (must exit non-zero) and the test-suite (must be unchanged), then revert. In your final answer report for each patch: the file/lines changed, why it violates the property, what is needed to manifest, and the exact commands you ran with their observed results.""")
