#!/venv/bin/python
"""T1b: translate the pure decision functions of /repo (flag getters, has_priority_over, _validate_index, _get_child_kwargs) and the
field-mutating parts of _replace_self / _replace_other / _propagate_implicit_values (class Mut: assignments to the flag fields of self /
child as a chain of let-bindings) from their Python source into Gallina (coq/Gen/Src.v), fail-closed.

The translator understands a small, explicitly listed subset of Python (see `Tr`): `if` / `return` / `raise` / assignment to a
local name or to a key of the result dict, comparisons, `is None` tests (which REFINE the tested attribute to its non-None type
in the other branch), boolean operators (with Python's value semantics for `bool or Optional[bool]`), `notnone_or`, `abs`,
`min`, `max`, `len(self)`, `+`.  Anything else raises, and the caller reports the tie "translator" as broken.
Proofs/SrcOk.v proves every generated definition equal to the hand-written model function the theorems are about; so a change of
these functions in /repo either leaves the proof intact (a rewrite the translation maps to an equal term), or breaks SrcOk.

Run as: PYTHONPATH=/repo /venv/bin/python tools/translate_src.py <out.v>
"""
import sys, os, ast

REPO = os.environ.get('AY_REPO', '/repo')
sys.path.insert(0, REPO)

Z, B, OB, OZ, IDX, CKW = 'Z', 'bool', 'option bool', 'option Z', 'idx_res', 'ckw'

# raw attributes of a node object -> (field accessor, type)
ATTRS = {'_priority': ('f_prio', OZ), '_delete': ('f_del', OB), '_allow_new': ('f_new', OB), '_safe': ('f_safe', OB),
         '_implicit_delete': ('f_idel', OB), '_implicit_allow_new': ('f_inew', OB), '_implicit_safe': ('f_isafe', OB),
         '_default_safe': ('f_dsafe', OB)}
# class-level defaults become parameters of the generated definition
CLASSATTR = {'_default_priority': ('dprio', Z), '_default_delete': ('ddel', B), '_default_allow_new': ('dnew', B)}
OBJ = {'self': 'f', 'other': 'g', 'child': 'c'}
META = 'list (Z * Z)'
FIELDS = ['_priority', '_delete', '_allow_new', '_safe', '_implicit_delete', '_implicit_allow_new', '_implicit_safe', '_default_safe']


class Unsupported(Exception):
    pass


def fail(node, why):
    raise Unsupported(f'{why}: {ast.dump(node)[:200]}')


class Tr:
    def __init__(self, rettype, params, fixed=None):
        self.rettype = rettype
        self.env = dict(params)          # python local name -> (coq term, type)
        self.refined = {}                # source text of an attribute expression -> (coq var, type) once known to be not None
        self.fixed = fixed or {}         # parameters fixed to a constant (partial evaluation): name -> python constant
        self.fresh = 0
        self.fields = {}                 # result-dict fields (for _get_child_kwargs)

    # ---- expressions
    def expr(self, e):
        """returns (coq term, type)"""
        src = ast.unparse(e)
        if src in self.refined:
            return self.refined[src]
        if isinstance(e, ast.Constant):
            if e.value is True: return 'true', B
            if e.value is False: return 'false', B
            if e.value is None: return 'None', 'none'
            if isinstance(e.value, int): return f'({e.value})', Z
            fail(e, 'constant')
        if isinstance(e, ast.Name):
            if e.id in self.fixed:
                return self.expr(ast.Constant(self.fixed[e.id]))
            if e.id in self.env:
                return self.env[e.id]
            fail(e, 'unknown name')
        if isinstance(e, ast.Attribute):
            # self._x / other._x
            if isinstance(e.value, ast.Name) and e.value.id in OBJ:
                if e.attr in ATTRS:
                    fld, ty = ATTRS[e.attr]
                    return f'({fld} {OBJ[e.value.id]})', ty
                if e.attr in CLASSATTR and e.value.id == 'self':
                    return CLASSATTR[e.attr]
            # self.ayns.priority / other.ayns.priority
            if isinstance(e.value, ast.Attribute) and e.value.attr == 'ayns' and isinstance(e.value.value, ast.Name) and e.value.value.id in OBJ \
                    and e.attr == 'priority':
                return f'(priority {OBJ[e.value.value.id]} dprio)', Z
            fail(e, 'attribute')
        if isinstance(e, ast.Compare) and len(e.ops) == 1:
            op, l, r = e.ops[0], e.left, e.comparators[0]
            if isinstance(op, (ast.Is, ast.IsNot)) and isinstance(r, ast.Constant):
                lt, lty = self.expr(l)
                if r.value is None:
                    if lty == 'none':                      # a parameter fixed to None
                        return ('true' if isinstance(op, ast.Is) else 'false'), B
                    if lty not in (OB, OZ): fail(e, 'is None on a non-option')
                    t = f'match {lt} with None => true | Some _ => false end'
                    return (f'({t})' if isinstance(op, ast.Is) else f'(negb ({t}))'), B
                if r.value is False and lty == OB:
                    t = f'(ob_eqb {lt} (Some false))'
                    return (t if isinstance(op, ast.Is) else f'(negb {t})'), B
                fail(e, 'is')
            lt, lty = self.expr(l)
            rt, rty = self.expr(r)
            if lty == Z and rty == Z:
                f = {ast.Eq: 'Z.eqb', ast.Gt: 'Z.gtb', ast.Lt: 'Z.ltb', ast.GtE: 'Z.geb', ast.LtE: 'Z.leb'}.get(type(op))
                if f: return f'({f} {lt} {rt})', B
                if isinstance(op, ast.NotEq): return f'(negb (Z.eqb {lt} {rt}))', B
            if lty == OB and rty == OB and isinstance(op, (ast.Eq, ast.NotEq)):
                t = f'(ob_eqb {lt} {rt})'
                return (t if isinstance(op, ast.Eq) else f'(negb {t})'), B
            fail(e, 'comparison')
        if isinstance(e, ast.BoolOp):
            vals = []
            for v in e.values:                       # left to right; a constant operand decides (partial evaluation of fixed parameters)
                vt, vty = self.expr(v)
                if vty == B and vt == ('true' if isinstance(e.op, ast.Or) else 'false'):
                    vals.append((vt, vty))
                    break
                if vty == B and vt == ('false' if isinstance(e.op, ast.Or) else 'true') and v is not e.values[-1]:
                    continue
                vals.append((vt, vty))
            t, ty = vals[-1]
            for vt, vty in reversed(vals[:-1]):
                if isinstance(e.op, ast.And):
                    if vty == B and ty == B: t = f'(andb {vt} {t})'
                    else: fail(e, 'and on non-bools')
                else:
                    if vty == B and ty == B: t = f'(orb {vt} {t})'
                    elif vty == B and ty == OB: t, ty = f'(if {vt} then Some true else {t})', OB      # True or x = True ; False or x = x
                    else: fail(e, 'or')
            return t, ty
        if isinstance(e, ast.UnaryOp) and isinstance(e.op, ast.Not):
            t, ty = self.expr(e.operand)
            if ty != B: fail(e, 'not on a non-bool')
            if t in ('true', 'false'): return ('false' if t == 'true' else 'true'), B
            return f'(negb {t})', B
        if isinstance(e, ast.BinOp) and isinstance(e.op, ast.Add):
            (a, ta), (b, tb) = self.expr(e.left), self.expr(e.right)
            if ta == Z and tb == Z: return f'({a} + {b})', Z
            fail(e, 'add')
        if isinstance(e, ast.Call) and isinstance(e.func, ast.Name):
            fn, args = e.func.id, e.args
            if fn == 'notnone_or' and len(args) == 2:
                (a, ta), (b, tb) = self.expr(args[0]), self.expr(args[1])
                if ta == OB and tb == B: return f'(match {a} with Some x => x | None => {b} end)', B
                if ta == OB and tb == OB: return f'(match {a} with Some x => Some x | None => {b} end)', OB
                if ta == OZ and tb == Z: return f'(match {a} with Some x => x | None => {b} end)', Z
                if ta == B: return a, B                      # refined: already known to be not None
                fail(e, 'notnone_or')
            if fn == 'abs' and len(args) == 1:
                a, ta = self.expr(args[0])
                if ta == Z: return f'(Z.abs {a})', Z
            if fn in ('min', 'max') and len(args) == 2:
                (a, ta), (b, tb) = self.expr(args[0]), self.expr(args[1])
                if ta == Z and tb == Z: return f'(Z.{fn} {a} {b})', Z
            if fn == 'len' and len(args) == 1 and isinstance(args[0], ast.Name) and args[0].id == 'self':
                return 'len', Z
            if fn == 'hasattr':
                return 'true', B                              # objects are fully initialised (the unpickling shortcut is outside the model)
            if fn == 'getattr' and len(args) == 2 and isinstance(args[0], ast.Name) and args[0].id in self.fixed:
                return 'None', 'none'
        fail(e, 'expression')

    def coerce(self, t, ty, want):
        if ty == want: return t
        if ty == 'none' and want in (OB, OZ): return 'None'
        if ty == B and want == OB: return f'(Some {t})'
        if ty == Z and want == OZ: return f'(Some {t})'
        if ty == Z and want == IDX: return f'(IdxOk {t})'
        raise Unsupported(f'cannot use a {ty} as {want}: {t}')

    # ---- statements
    def terminates(self, stmts):
        return bool(stmts) and isinstance(stmts[-1], (ast.Return, ast.Raise))

    def block(self, stmts):
        if not stmts:
            raise Unsupported('control reaches the end of the function without a return')
        s, rest = stmts[0], stmts[1:]
        if isinstance(s, ast.Expr) and isinstance(s.value, ast.Constant) and isinstance(s.value.value, str):
            return self.block(rest)
        if isinstance(s, ast.Return):
            if isinstance(s.value, ast.Name) and s.value.id == 'ret' and self.rettype == CKW:
                f = self.fields
                missing = [k for k in ('implicit_delete', 'implicit_allow_new', 'implicit_safe') if k not in f]
                if missing: raise Unsupported(f'result dict lacks {missing}')
                return f"(mkCK true {f['implicit_delete']} {f['implicit_allow_new']} {f['implicit_safe']})"
            t, ty = self.expr(s.value)
            return self.coerce(t, ty, self.rettype)
        if isinstance(s, ast.Raise):
            name = s.exc.func.id if isinstance(s.exc, ast.Call) else s.exc.id
            if self.rettype == IDX and name in ('TypeError', 'IndexError'):
                return {'TypeError': 'IdxTypeErr', 'IndexError': 'IdxRangeErr'}[name]
            fail(s, 'raise')
        if isinstance(s, ast.Assign) and len(s.targets) == 1:
            tg = s.targets[0]
            if isinstance(tg, ast.Name):
                if tg.id == 'ret' and isinstance(s.value, ast.Dict) and not s.value.keys:
                    self.fields = {}
                    return self.block(rest)
                t, ty = self.expr(s.value)
                old = self.env.get(tg.id)
                self.fresh += 1
                v = f'{tg.id}{self.fresh}'
                self.env[tg.id] = (v, ty)
                body = self.block(rest)
                if old is not None: self.env[tg.id] = old
                return f'(let {v} := {t} in {body})'
            if isinstance(tg, ast.Subscript) and isinstance(tg.value, ast.Name) and tg.value.id == 'ret' and isinstance(tg.slice, ast.Constant):
                t, ty = self.expr(s.value)
                self.fields[tg.slice.value] = self.coerce(t, ty, OB)
                return self.block(rest)
            fail(s, 'assignment')
        if isinstance(s, ast.If):
            # isinstance(index, int) guard of _validate_index: the key type decides
            if isinstance(s.test, ast.UnaryOp) and isinstance(s.test.op, ast.Not) and isinstance(s.test.operand, ast.Call) \
                    and getattr(s.test.operand.func, 'id', None) == 'isinstance' and ast.unparse(s.test.operand.args[1]) == 'int' and not s.orelse:
                nm = s.test.operand.args[0].id
                bad = self.block(s.body)
                self.env[nm] = ('z0', Z)
                good = self.block(rest)
                return f'(match {nm} with KS _ => {bad} | KI z0 => {good} end)'
            # refinement on `X is None` / `X is not None`
            if isinstance(s.test, ast.Compare) and len(s.test.ops) == 1 and isinstance(s.test.ops[0], (ast.Is, ast.IsNot)) \
                    and isinstance(s.test.comparators[0], ast.Constant) and s.test.comparators[0].value is None:
                src = ast.unparse(s.test.left)
                lt, lty = self.expr(s.test.left)
                if lty in (OB, OZ) and src not in self.refined:
                    is_none = isinstance(s.test.ops[0], ast.Is)
                    none_stmts, some_stmts = (s.body, s.orelse) if is_none else (s.orelse, s.body)
                    self.fresh += 1
                    v = f'v{self.fresh}'
                    if self.terminates(s.body) or (s.orelse and self.terminates(s.orelse)) or not rest:
                        saved_f = dict(self.fields)
                        none_t = self.block(list(none_stmts) + ([] if self.terminates(none_stmts) else rest))
                        f_none = self.fields
                        self.fields = dict(saved_f)
                        self.refined[src] = (v, B if lty == OB else Z)
                        some_t = self.block(list(some_stmts) + ([] if self.terminates(some_stmts) else rest))
                        del self.refined[src]
                        if f_none != self.fields: raise Unsupported('result dict differs between branches')
                        return f'(match {lt} with None => {none_t} | Some {v} => {some_t} end)'
            t, ty = self.expr(s.test)
            if ty != B: fail(s, 'if on a non-bool')
            if t == 'false':                                      # dead branch (constant test)
                return self.block(list(s.orelse) + rest)
            if t == 'true':
                return self.block(list(s.body) + ([] if self.terminates(s.body) else rest))
            if self.terminates(s.body) and not s.orelse:
                return f'(if {t} then {self.block(s.body)} else {self.block(rest)})'
            if self.terminates(s.body) and self.terminates(s.orelse):
                return f'(if {t} then {self.block(s.body)} else {self.block(s.orelse)})'
            # non-terminating body: only assignments to one local name / one result key are supported
            if len(s.body) == 1 and not s.orelse and isinstance(s.body[0], ast.Assign):
                a = s.body[0]
                tg = a.targets[0]
                if isinstance(tg, ast.Name) and tg.id in self.env:
                    vt, vty = self.expr(a.value)
                    ot, oty = self.env[tg.id]
                    if vty != oty: fail(s, 'assignment changes the type')
                    self.fresh += 1
                    v = f'{tg.id}{self.fresh}'
                    self.env[tg.id] = (v, oty)
                    body = self.block(rest)
                    self.env[tg.id] = (ot, oty)
                    return f'(let {v} := if {t} then {vt} else {ot} in {body})'
                if isinstance(tg, ast.Subscript) and getattr(tg.value, 'id', None) == 'ret' and isinstance(tg.slice, ast.Constant):
                    raise Unsupported('conditionally present result key: ' + t)   # only constantly-true guards are in the subset
                    vt, vty = self.expr(a.value)
                    self.fields[tg.slice.value] = self.coerce(vt, vty, OB)
                    return self.block(rest)
            fail(s, 'if')
        fail(s, 'statement')


class Mut(Tr):
    """functions that MUTATE the flag fields of `self` / `child`: straight-line assignments and (nested) `if` blocks without `else`, translated
    into a chain of let-bindings over the current value of every field (SSA); an `if X is not None:` block refines X inside; the block joins
    as `if c then <new> else <old>` per changed variable.  Translation stops at the first statement for which `stop` holds (it must exist):
    what follows (promotion of the container type, recursion into the child) is modelled by hand and tied by correspondence."""
    def __init__(self, params):
        super().__init__(None, params)
        self.cur = {}
        self.lets = []

    def expr(self, e):
        src = ast.unparse(e)
        if src in self.refined:
            return self.refined[src]
        if src in self.cur:
            return self.cur[src]
        if isinstance(e, ast.Attribute) and e.attr == '_metadata' and isinstance(e.value, ast.Name) and e.value.id in OBJ:
            return f'(f_meta {OBJ[e.value.id]})', META
        if isinstance(e, ast.Dict) and len(e.values) == 2 and all(k is None for k in e.keys):
            (a, ta), (b, tb) = self.expr(e.values[0]), self.expr(e.values[1])
            if ta == META and tb == META:
                return f'(mupd {a} {b})', META          # {**a, **b}
        return super().expr(e)

    def target(self, tg):
        """(state key, required type or None)"""
        if isinstance(tg, ast.Attribute) and isinstance(tg.value, ast.Name) and tg.value.id in OBJ:
            if tg.attr in ATTRS:
                return ast.unparse(tg), ATTRS[tg.attr][1]
            if tg.attr == '_metadata':
                return ast.unparse(tg), META
        if isinstance(tg, ast.Name):
            return tg.id, None
        fail(tg, 'assignment target')

    def new_var(self, hint):
        self.fresh += 1
        return f'{hint}{self.fresh}'

    def run(self, stmts, stop, top=True):
        for i, s in enumerate(stmts):
            if stop(s):
                return True
            if isinstance(s, ast.Expr) and isinstance(s.value, ast.Constant) and isinstance(s.value.value, str):
                continue
            if isinstance(s, ast.Assign) and len(s.targets) == 1:
                key, want = self.target(s.targets[0])
                if key in self.refined:
                    fail(s, 'assignment to a refined attribute')
                t, ty = self.expr(s.value)
                if want is None and key in self.cur:
                    want = self.cur[key][1]
                if want is not None:
                    t, ty = self.coerce(t, ty, want), want
                v = self.new_var('x')
                self.lets.append((v, t))
                self.cur[key] = (v, ty)
                if want is None:
                    self.env[key] = (v, ty)
                continue
            if isinstance(s, ast.If) and not s.orelse:
                ref = None
                if isinstance(s.test, ast.Compare) and len(s.test.ops) == 1 and isinstance(s.test.ops[0], ast.IsNot) \
                        and isinstance(s.test.comparators[0], ast.Constant) and s.test.comparators[0].value is None:
                    src = ast.unparse(s.test.left)
                    lt, lty = self.expr(s.test.left)
                    if lty in (OB, OZ) and src not in self.refined:
                        ref = (src, lt, self.new_var('v'), B if lty == OB else Z)
                if ref is None:
                    t, ty = self.expr(s.test)
                    if ty != B: fail(s, 'if on a non-bool')
                saved_cur, saved_env, saved_lets = dict(self.cur), dict(self.env), self.lets
                self.lets = []
                if ref: self.refined[ref[0]] = (ref[2], ref[3])
                if self.run(s.body, stop, top=False):
                    fail(s, 'stop statement inside a conditional block')
                if ref: del self.refined[ref[0]]
                body_cur, body_lets = self.cur, self.lets
                self.cur, self.env, self.lets = saved_cur, saved_env, saved_lets
                for key, (nv, nty) in body_cur.items():
                    if saved_cur.get(key) == (nv, nty):
                        continue
                    if key in saved_cur:
                        ot, oty = saved_cur[key]
                    else:
                        ot, oty = self.expr(ast.parse(key, mode='eval').body)
                    if oty != nty: fail(s, f'{key} changes its type in a conditional block')
                    new = ''.join(f'let {a} := {b} in ' for a, b in body_lets) + nv
                    v = self.new_var('x')
                    if ref:
                        self.lets.append((v, f'match {ref[1]} with Some {ref[2]} => {new} | None => {ot} end'))
                    else:
                        self.lets.append((v, f'if {t} then {new} else {ot}'))
                    self.cur[key] = (v, nty)
                    if key in self.env or '.' not in key:
                        self.env[key] = (v, nty)
                continue
            fail(s, 'statement (mutator)')
        if top:
            raise Unsupported('the stop statement was not found')
        return False

    def flags_of(self, obj):
        parts = []
        for a in FIELDS:
            key = f'{obj}.{a}'
            parts.append(self.cur[key][0] if key in self.cur else f'({ATTRS[a][0]} {OBJ[obj]})')
        key = f'{obj}._metadata'
        parts.append(self.cur[key][0] if key in self.cur else f'(f_meta {OBJ[obj]})')
        parts.append(f'(f_src {OBJ[obj]})')
        return '(mkF ' + ' '.join(parts) + ')'

    def wrap(self, result):
        return ''.join(f'let {a} := {b} in\n  ' for a, b in self.lets) + result


def find_func(rel, path):
    """the FunctionDef reached through nested class / function names in awesomeyaml/<rel> (getter, not setter, for properties)"""
    src = open(os.path.join(REPO, 'awesomeyaml', rel), newline='').read().replace('\r\n', '\n')
    node = ast.parse(src)
    for i, name in enumerate(path):
        last = i == len(path) - 1
        found = [n for n in node.body if isinstance(n, (ast.ClassDef, ast.FunctionDef)) and n.name == name]
        if last:
            found = [n for n in found if isinstance(n, ast.FunctionDef) and not any(isinstance(d, ast.Attribute) and d.attr == 'setter' for d in n.decorator_list)]
        if len(found) != 1:
            raise Unsupported(f'{rel}: {".".join(path)} not found exactly once ({len(found)})')
        node = found[0]
    return node


def main(out):
    L = ['(* GENERATED by tools/translate_src.py from the Python source in the working tree of /repo - do not edit *)',
         'From AY Require Import Model.Node.', 'Open Scope Z_scope.', 'Module Src.',
         'Definition ob_eqb (a b : option bool) : bool := match a, b with None, None => true | Some x, Some y => Bool.eqb x y | _, _ => false end.',
         'Record ckw := mkCK { ck_any : bool; ck_idel : option bool; ck_inew : option bool; ck_isafe : option bool }.',
         '(* {**a, **b} on association lists: the entries of b are set into a one by one (an existing key keeps its position) *)',
         'Fixpoint mset (k v : Z) (l : list (Z * Z)) : list (Z * Z) := match l with [] => [(k, v)] | (k\', v\') :: r => if k =? k\' then (k, v) :: r else (k\', v\') :: mset k v r end.',
         'Definition mupd (a b : list (Z * Z)) : list (Z * Z) := fold_left (fun acc kv => mset (fst kv) (snd kv) acc) b a.']

    def emit(name, sig, rettype, fn, params, fixed=None):
        tr = Tr(rettype, params, fixed)
        body = tr.block(fn.body)
        L.append(f'Definition {name} {sig} : {rettype} :=\n  {body}.')

    def prop(name):
        return find_func('nodes/node.py', ['ConfigNode', 'ayns', name])
    emit('priority', '(f : flags) (dprio : Z)', Z, prop('priority'), {})
    emit('delete', '(f : flags) (ddel : bool)', B, prop('delete'), {})
    emit('allow_new', '(f : flags) (dnew : bool)', B, prop('allow_new'), {})
    emit('explicit_delete', '(f : flags)', OB, prop('explicit_delete'), {})
    emit('safe', '(f : flags)', B, prop('safe'), {})
    emit('has_priority_over', '(f g : flags) (if_equal : bool) (dprio : Z)', B, prop('has_priority_over'), {'if_equal': ('if_equal', B)})
    emit('validate_index', '(len : Z) (index : key) (strict : bool)', IDX, find_func('nodes/list.py', ['ConfigList', '_validate_index']), {'strict': ('strict', B), 'index': ('index', 'key')})
    emit('child_kwargs', '(f : flags) (ddel : bool)', CKW, find_func('nodes/composed.py', ['ComposedNode', '_get_child_kwargs']), {}, fixed={'child': None})

    # ---- mutators: the flag part of _replace_other / _replace_self (up to `if allow_promotions:`)
    def is_if_on(name):
        return lambda s: isinstance(s, ast.If) and ast.unparse(s.test) == name
    for pyname, coqname in (('_replace_other', 'replace_other_flags'), ('_replace_self', 'replace_self_flags')):
        fn = find_func('nodes/node.py', ['ConfigNode', pyname])
        m = Mut({})
        m.run(fn.body, is_if_on('allow_promotions'))
        L.append(f'Definition {coqname} (f g : flags) : flags :=\n  {m.wrap(m.flags_of("self"))}.')
    # ---- _propagate_implicit_values: the guards, and what the loop does to ONE child (up to the recursive call `if fix:`)
    fn = find_func('nodes/composed.py', ['ComposedNode', '_propagate_implicit_values'])
    guards, rest = [], list(fn.body)
    while rest and isinstance(rest[0], ast.If):
        g = rest.pop(0)
        if g.orelse or len(g.body) != 1 or not isinstance(g.body[0], ast.Return) or g.body[0].value is not None:
            raise Unsupported('guard of _propagate_implicit_values is not `if ..: return`')
        guards.append(ast.If(test=g.test, body=[ast.Return(value=ast.Constant(True))], orelse=[]))
    tr = Tr(B, {})
    L.append('Definition prop_stops (f : flags) : bool :=\n  ' + tr.block(guards + [ast.Return(value=ast.Constant(False))]) + '.')
    if len(rest) != 2 or not isinstance(rest[1], ast.For) or ast.unparse(rest[1].iter) != 'self._children.values()' or ast.unparse(rest[1].target) != 'child' or rest[1].orelse:
        raise Unsupported('_propagate_implicit_values: expected one assignment and one loop over self._children.values()')
    m = Mut({'ddel': ('ddel', B)})
    m.env.update({})
    global CLASSATTR
    m.run([rest[0]] + list(rest[1].body), is_if_on('fix'))
    if 'fix' not in m.cur:
        raise Unsupported('_propagate_implicit_values: no `fix` flag')
    L.append(f'Definition pc_flags (f : flags) (ddel : bool) (c : flags) : flags * bool :=\n  {m.wrap("(" + m.flags_of("child") + ", " + m.cur["fix"][0] + ")")}.')
    L.append('End Src.')
    text = '\n'.join(L) + '\n'
    old = open(out).read() if os.path.exists(out) else None
    if old != text:
        open(out, 'w').write(text)
        print('src: regenerated')
    else:
        print('src: unchanged')


if __name__ == '__main__':
    main(sys.argv[1])
