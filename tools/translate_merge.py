#!/venv/bin/python
"""T1c: translate the CONTROL SKELETON of the four on_merge_impl methods (ConfigNode, ComposedNode incl. the loop over the newer node's
children, FunctionNode, ConfigList) from their Python source into Gallina over the model's primitives (coq/Gen/SrcMerge.v), fail-closed.

What is translated: the order of the statements, every condition, which API call is made with which arguments on which branch, what is
returned.  What is NOT: the API calls themselves - `has_priority_over`, `_replace_self/_other`, `set_child`, `remove_child`, `get_child`,
`filter_nodes`, `_require_all_new`, `get_first_not_missing_node`, truthiness, `delete`, `explicit_delete` are mapped BY NAME to the model
functions of the same meaning (each tied to the code on its own: T1b / T2 / T3).  Two modelling conventions are built in and stated here:
(1) objects are values: a statement that mutates `self` rebinds it; a child that `on_merge` mutated in place and that is not re-set is
written back (`put_child`); (2) `x is not child` is the `who` component the model returns with every merge result.
Anything outside the explicit pattern tables raises; then Gen/SrcMerge.v is emptied and Proofs/SrcMergeOk.v cannot compile.
Proofs/SrcMergeOk.v proves every generated definition equal to the hand-written rule of Model/Merge.v that all merge theorems unfold.

Run as: PYTHONPATH=/repo /venv/bin/python tools/translate_merge.py <out.v>
"""
import sys, os, ast, copy

sys.path.insert(0, os.path.dirname(os.path.abspath(__file__)))
from translate_src import find_func, Unsupported, fail  # noqa: E402

MSG_ONLY = ('_this_path',)


def U(e):
    return ast.unparse(e)


class Env:
    def __init__(self):
        self.nodes = {}      # python name -> (term, who-term)
        self.bools = {}      # python name -> term
        self.paths = {}      # python name -> term (sets of removed paths, as lists)
        self.opt = {}        # python name -> option-node term (result of get_child(key, None))
        self.closures = {}   # python name -> Gallina lambda
        self.cur = None      # python name of the container being mutated in a loop body ('self')
        self.pending = None  # (k-term, node-term): a child merged in place and not yet written back
        self.fresh = [0]

    def copy(self):
        e = copy.copy(self)
        e.nodes, e.bools, e.paths, e.opt, e.closures = dict(self.nodes), dict(self.bools), dict(self.paths), dict(self.opt), dict(self.closures)
        return e

    def new(self, hint):
        self.fresh[0] += 1
        return f'{hint}{self.fresh[0]}'


class Sk:
    def __init__(self, mode, pathvar='path'):
        self.mode = mode          # 'merge': returns res (node * who); 'step': a loop body, returns res node; 'bool': a predicate closure
        self.pathvar = pathvar

    # ---------- expressions ----------
    def path(self, e, env, closure=False):
        s = U(e)
        if closure:
            if s == 'path': return 'ap'
            if s == 'path[len(prefix):]': return '(skipn (length p) ap)'
            fail(e, 'path expression in a closure')
        if s in (self.pathvar, 'prefix'): return 'p'
        if s == f'{self.pathvar} + [key]': return '(p ++ [k])'
        fail(e, 'path expression')

    def node(self, e, env):
        if isinstance(e, ast.Name) and e.id in env.nodes:
            return env.nodes[e.id]
        fail(e, 'node expression')

    def kwargs(self, call, allowed):
        kw = {}
        for k in call.keywords:
            if k.arg not in allowed: fail(call, f'keyword {k.arg}')
            kw[k.arg] = k.value
        return kw

    def const_bool(self, e, default):
        if e is None: return 'true' if default else 'false'
        if isinstance(e, ast.Constant) and e.value in (True, False): return 'true' if e.value else 'false'
        fail(e, 'boolean constant')

    def ayns_call(self, e):
        """X.ayns.method(args) -> (X, method, call) or None"""
        if isinstance(e, ast.Call) and isinstance(e.func, ast.Attribute) and isinstance(e.func.value, ast.Attribute) and e.func.value.attr == 'ayns':
            return e.func.value.value, e.func.attr, e
        return None

    def bool(self, e, env, closure=False):
        if isinstance(e, ast.Constant) and e.value in (True, False):
            return 'true' if e.value else 'false'
        if isinstance(e, ast.Name) and e.id in env.bools:
            return env.bools[e.id]
        if isinstance(e, ast.UnaryOp) and isinstance(e.op, ast.Not):
            o = e.operand
            if isinstance(o, ast.Name) and o.id in env.nodes:          # `not node` = the node is falsy
                return f'(negb (truthy {env.nodes[o.id][0]}))'
            if U(o) == 'self._children':
                return f'(match children {env.nodes["self"][0]} with [] => true | _ => false end)'
            return f'(negb {self.bool(o, env, closure)})'
        if isinstance(e, ast.BoolOp):
            op = 'andb' if isinstance(e.op, ast.And) else 'orb'
            ts = [self.bool(v, env, closure) for v in e.values]
            t = ts[-1]
            for x in reversed(ts[:-1]):
                t = f'({op} {x} {t})'
            return t
        if isinstance(e, ast.Call) and isinstance(e.func, ast.Name) and e.func.id == 'isinstance' and len(e.args) == 2:
            x, _ = self.node(e.args[0], env)
            cls = U(e.args[1])
            if cls == 'ComposedNode': return f'(is_comp {x})'
            if cls == 'str': return f'(is_str_leaf {x})'
            if cls == 'dict': return f'(is_dictk {x})'
            fail(e, 'isinstance')
        if isinstance(e, ast.Compare) and len(e.ops) == 1 and isinstance(e.ops[0], ast.IsNot) and isinstance(e.left, ast.Name) \
                and e.left.id in env.nodes and U(e.comparators[0]) == 'child':
            return f'(match {env.nodes[e.left.id][1]} with Other => true | Self => false end)'
        if isinstance(e, ast.Attribute) and isinstance(e.value, ast.Attribute) and e.value.attr == 'ayns':
            x, _ = self.node(e.value.value, env)
            if e.attr == 'delete': return f'(delete {x})'
            if e.attr == 'explicit_delete': return f'(explicit_delete {x})'
            fail(e, 'ayns attribute')
        ac = self.ayns_call(e)
        if ac and ac[1] == 'has_priority_over' and len(ac[2].args) == 1:
            x, _ = self.node(ac[0], env)
            y, _ = self.node(ac[2].args[0], env)
            kw = self.kwargs(ac[2], ('if_equal',))
            return f'(has_priority_over {x} {y} {self.const_bool(kw.get("if_equal"), False)})'
        fail(e, 'boolean expression')

    def closure(self, fn, env):
        """a nested predicate `def f(path, node)`: straight-line assignments of nodes, `if c: return B`, `return B`"""
        if [a.arg for a in fn.args.args] != ['path', 'node']:
            fail(fn, 'closure signature')
        e2 = env.copy()
        e2.nodes['node'] = ('n', None)

        def blk(stmts):
            if not stmts: fail(fn, 'closure falls off its end')
            s, rest = stmts[0], stmts[1:]
            if isinstance(s, ast.Return):
                return self.bool(s.value, e2, closure=True)
            if isinstance(s, ast.If) and not s.orelse and len(s.body) == 1 and isinstance(s.body[0], ast.Return):
                c, b = self.bool(s.test, e2, True), self.bool(s.body[0].value, e2, True)
                return f'(orb {c} {blk(rest)})' if b == 'true' else f'(if {c} then {b} else {blk(rest)})'   # `if c: return True` = c or ...
            if isinstance(s, ast.Assign) and len(s.targets) == 1 and isinstance(s.targets[0], ast.Name):
                ac = self.ayns_call(s.value)
                if ac and ac[1] == 'get_first_not_missing_node' and len(ac[2].args) == 1:
                    x, _ = self.node(ac[0], e2)
                    e2.nodes[s.targets[0].id] = (f'(first_not_missing {x} {self.path(ac[2].args[0], e2, closure=True)})', None)
                    return blk(rest)
            fail(s, 'closure statement')
        return f'(fun (ap : path) (n : node) => {blk(fn.body)})'

    # ---------- statements ----------
    def finish(self, env):
        """control reaches the end of the block"""
        if self.mode == 'step':
            cur = env.nodes[env.cur][0]
            if env.pending:
                return f'Ok (put_child {cur} {env.pending[0]} {env.pending[1]})'
            return f'Ok {cur}'
        raise Unsupported('control reaches the end of on_merge_impl without a return')

    def replace_call(self, call, env):
        """X._replace_self/_replace_other(Y, allow_promotions=B) -> (X name, method, Y name, B)"""
        if isinstance(call, ast.Call) and isinstance(call.func, ast.Attribute) and call.func.attr in ('_replace_self', '_replace_other') \
                and isinstance(call.func.value, ast.Name) and call.func.value.id in env.nodes and len(call.args) == 1 and isinstance(call.args[0], ast.Name) \
                and call.args[0].id in env.nodes:
            kw = self.kwargs(call, ('allow_promotions',))
            return call.func.value.id, call.func.attr[1:], call.args[0].id, self.const_bool(kw.get('allow_promotions'), False)
        return None

    def block(self, stmts, env):
        if not stmts:
            return self.finish(env)
        s, rest = stmts[0], list(stmts[1:])
        # docstrings / message-only statements
        if isinstance(s, ast.Expr) and isinstance(s.value, ast.Constant):
            return self.block(rest, env)
        if isinstance(s, ast.Assign) and len(s.targets) == 1 and isinstance(s.targets[0], ast.Name) and s.targets[0].id in MSG_ONLY:
            return self.block(rest, env)
        if isinstance(s, ast.If) and U(s.test) == 'not _this_path' and not s.orelse and all(isinstance(b, ast.Assign) and U(b.targets[0]) in MSG_ONLY for b in s.body):
            return self.block(rest, env)
        if isinstance(s, ast.FunctionDef):
            env = env.copy()
            env.closures[s.name] = s
            return self.block(rest, env)
        if isinstance(s, ast.Return):
            if self.mode != 'merge': fail(s, 'return in a loop body')
            v = s.value
            if isinstance(v, ast.Name) and v.id in env.nodes:
                t, w = env.nodes[v.id]
                return f'Ok ({t}, {w})'
            src = U(v)
            if src == 'ConfigNode.ayns.on_merge_impl(self, path, other)':
                return f'Ok (leaf_merge {env.nodes["self"][0]} {env.nodes["other"][0]})'
            if src in ('super().ayns.on_merge_impl(prefix, other)', 'super().ayns.on_merge_impl(path, other)'):
                return f'super_merge p {env.nodes["self"][0]} {env.nodes["other"][0]}'
            fail(s, 'return value')
        if isinstance(s, ast.Raise):
            if isinstance(s.exc, ast.Call) and U(s.exc.func) == 'MergeError':
                return 'Err EMerge p'
            fail(s, 'raise')
        if isinstance(s, ast.If):
            # `if child is None:` on the result of get_child(key, None)
            if isinstance(s.test, ast.Compare) and isinstance(s.test.ops[0], ast.Is) and isinstance(s.test.left, ast.Name) and s.test.left.id in env.opt \
                    and isinstance(s.test.comparators[0], ast.Constant) and s.test.comparators[0].value is None:
                nm = s.test.left.id
                c = env.new('c')
                e_some = env.copy()
                del e_some.opt[nm]
                e_some.nodes[nm] = (c, None)
                return (f'match {env.opt[nm]} with\n    | None => {self.block(list(s.body) + rest, env.copy())}\n'
                        f'    | Some {c} => {self.block(list(s.orelse) + rest, e_some)}\n    end')
            t = self.bool(s.test, env)
            return f'(if {t}\n   then {self.block(list(s.body) + rest, env.copy())}\n   else {self.block(list(s.orelse) + rest, env.copy())})'
        if isinstance(s, ast.Try):
            # new_func = (self._func != other._func), False when `other` has no _func
            if len(s.body) == 1 and U(s.body[0]) == 'new_func = self._func != other._func' and len(s.handlers) == 1 and U(s.handlers[0].type) == 'AttributeError' \
                    and len(s.handlers[0].body) == 1 and U(s.handlers[0].body[0]) == 'new_func = False' and not s.orelse and not s.finalbody:
                env = env.copy()
                env.bools['new_func'] = f'(match node_x {env.nodes["other"][0]} with Some x => negb (scalar_eqb (func_of {env.nodes["self"][0]}) x) | None => false end)'
                return self.block(rest, env)
            fail(s, 'try')
        if isinstance(s, ast.For):
            if self.mode != 'merge' or U(s.target) not in ('key, value', '(key, value)') or U(s.iter) != 'other._children.items()' or s.orelse:
                fail(s, 'loop')
            body = Sk('step', self.pathvar)
            e_body = env.copy()
            e_body.nodes['self'] = ('cur', 'Self')
            e_body.nodes['value'] = ('v', None)
            e_body.cur = 'self'
            e_body.pending = None
            step = body.block(list(s.body), e_body)
            s2 = env.new('s')
            env = env.copy()
            loop = (f'do {s2} <- fold_left (fun (acc : res node) (kv : key * node) => do cur <- acc; let \'(k, v) := kv in\n    {step})\n'
                    f'    (children {env.nodes["other"][0]}) (Ok {env.nodes["self"][0]});\n  ')
            env.nodes['self'] = (s2, 'Self')
            return loop + self.block(rest, env)
        if isinstance(s, ast.Assign) and len(s.targets) == 1:
            tg, v = s.targets[0], s.value
            env = env.copy()
            if isinstance(tg, ast.Name):
                if U(v) == 'set()':
                    env.paths[tg.id] = '[]'
                    return self.block(rest, env)
                if tg.id == 'prefix' and U(v) == self.pathvar:
                    return self.block(rest, env)
                if U(v) == 'self.ayns.get_child(key, None)':
                    env.opt[tg.id] = f'(get_child {env.nodes["self"][0]} k)'
                    return self.block(rest, env)
                if isinstance(v, ast.Call) and isinstance(v.func, ast.Name) and v.func.id == 'isinstance':
                    env.bools[tg.id] = self.bool(v, env)
                    return self.block(rest, env)
                ac = self.ayns_call(v)
                if ac and ac[1] == 'on_merge' and len(ac[2].args) == 2 and isinstance(ac[0], ast.Name) and ac[0].id in env.nodes:
                    if self.mode != 'step': fail(s, 'recursive merge outside the loop')
                    c, _ = env.nodes[ac[0].id]
                    val, _ = self.node(ac[2].args[1], env)
                    n, w = env.new('n'), env.new('w')
                    env.nodes[tg.id] = (n, w)
                    env.pending = ('k', n)
                    return f'do nr <- rec {self.path(ac[2].args[0], env)} {c} {val}; let \'({n}, {w}) := nr in\n      {self.block(rest, env)}'
                rc = self.replace_call(v, env)
                if rc:
                    x, meth, y, prom = rc
                    r, pr = env.new('r'), env.new('promoted')
                    (xt, xw), (yt, yw) = env.nodes[x], env.nodes[y]
                    env.nodes[tg.id] = (r, f'(who_of {pr} {xw} {yw})')
                    return f'let \'({r}, {pr}) := {meth} {xt} {yt} {prom} in\n  {self.block(rest, env)}'
            if U(tg) == 'self._func':
                st, sw = env.nodes['self']
                if U(v) == 'other':
                    env.nodes['self'] = (f'(set_x {st} (match {env.nodes["other"][0]} with Leaf _ _ x => x | _ => func_of {st} end))', sw)
                    return self.block(rest, env)
                if U(v) == 'other._func':
                    env.nodes['self'] = (f'(set_x {st} (match node_x {env.nodes["other"][0]} with Some x => x | None => func_of {st} end))', sw)
                    return self.block(rest, env)
            fail(s, 'assignment')
        if isinstance(s, ast.Expr) and isinstance(s.value, ast.Call):
            call = s.value
            env = env.copy()
            rc = self.replace_call(call, env)
            if rc:
                x, meth, y, prom = rc
                xt, xw = env.nodes[x]
                env.nodes[x] = (f'(fst ({meth} {xt} {env.nodes[y][0]} {prom}))', xw)
                return self.block(rest, env)
            if U(call) == 'self.clear()':
                st, sw = env.nodes['self']
                env.nodes['self'] = (f'(clear_children {st})', sw)
                return self.block(rest, env)
            if isinstance(call.func, ast.Attribute) and call.func.attr == 'add' and isinstance(call.func.value, ast.Name) and call.func.value.id in env.paths and len(call.args) == 1:
                nm = call.func.value.id
                env.paths[nm] = f'({self.path(call.args[0], env)} :: {env.paths[nm]})'
                return self.block(rest, env)
            ac = self.ayns_call(call)
            if ac:
                obj, meth, c = ac
                if meth == 'filter_nodes' and isinstance(obj, ast.Name) and obj.id in env.nodes and len(c.args) == 1 and isinstance(c.args[0], ast.Name) and c.args[0].id in env.closures:
                    kw = self.kwargs(c, ('prefix', 'removed'))
                    lam = self.closure(env.closures[c.args[0].id], env)
                    pre = self.path(kw['prefix'], env) if 'prefix' in kw else '[]'
                    ot, ow = env.nodes[obj.id]
                    nn, rm = env.new('f'), env.new('rm')
                    env.nodes[obj.id] = (nn, ow)
                    if 'removed' in kw:
                        nm = kw['removed'].id
                        if env.paths.get(nm) != '[]': fail(call, 'filter_nodes into a non-empty set')
                        env.paths[nm] = rm
                    return f'let \'({nn}, {rm}) := filter_nodes {lam} {pre} {ot} in\n  {self.block(rest, env)}'
                if meth == '_require_all_new' and len(c.args) == 2:
                    x, _ = self.node(obj, env)
                    kw = self.kwargs(c, ('exceptions', 'include_self'))
                    exc = env.paths[kw['exceptions'].id] if 'exceptions' in kw else '[]'
                    inc = self.const_bool(kw.get('include_self'), True)
                    return f'(if require_all_new {x} {self.path(c.args[0], env)} {exc} {inc}\n     then {self.block(rest, env)}\n     else Err EMerge p)'
                if meth in ('set_child', 'remove_child') and U(obj) == 'self' and self.mode == 'step' and U(c.args[0]) == 'key':
                    cur = env.nodes['self'][0]
                    c2 = env.new('cur')
                    if meth == 'set_child':
                        val, _ = self.node(c.args[1], env)
                        op = f'set_child {cur} k {val}'
                    else:
                        op = f'remove_child {cur} k'
                    env.nodes['self'] = (c2, 'Self')
                    env.pending = None
                    return f'match {op} with Some {c2} => {self.block(rest, env)} | None => Err EMerge p end'
            # ConfigList: all keys of a mapping merged onto a list must be existing indices
            fail(s, 'call statement')
        fail(s, 'statement (skeleton)')


def list_keys_guard(fn):
    """ConfigList.on_merge_impl starts with `if isinstance(other, dict) and not other.ayns.delete:` collecting the keys that
    _validate_index(key, strict=True) rejects with IndexError and raising MergeError if there are any: returns (test, rest of the body)"""
    g = fn.body[0]
    if not isinstance(g, ast.If) or g.orelse or len(g.body) != 3:
        raise Unsupported('ConfigList.on_merge_impl: key guard not found')
    init, loop, chk = g.body
    ok = (U(init) == '_missing_keys = []' and isinstance(loop, ast.For) and U(loop.iter) == 'other.ayns.children_names()' and U(loop.target) == 'key'
          and any(isinstance(x, ast.Try) and U(x.body[0]) == 'self._validate_index(key, strict=True)' and U(x.handlers[0].type) == 'IndexError'
                  and U(x.handlers[0].body[0]) == '_missing_keys.append(key.ayns.native_value)' for x in loop.body)
          and isinstance(chk, ast.If) and U(chk.test) == '_missing_keys' and isinstance(chk.body[0], ast.Raise) and U(chk.body[0].exc.func) == 'MergeError')
    if not ok:
        raise Unsupported('ConfigList.on_merge_impl: key guard has an unexpected shape')
    return g.test, fn.body[1:]


def require_all_new_src():
    """_require_all_new of ConfigNode (node.py) and ComposedNode (composed.py), exact-text tables (round 7).  CONVENTIONS: raising is `false`;
    exceptions=None is the empty list; `p not in exceptions` is `negb (path_in p exceptions)`; the walk is the model's nodes_with_paths with the
    prefix and include_self passed through (its defaults are read by translate_eval.py)."""
    def body(fn):
        return [x for x in fn.body if not (isinstance(x, ast.Expr) and isinstance(x.value, ast.Constant))]
    sig = ['self', 'path', 'reason', 'exceptions', 'include_self']
    leaf = find_func('nodes/node.py', ['ConfigNode', 'ayns', '_require_all_new'])
    comp = find_func('nodes/composed.py', ['ComposedNode', 'ayns', '_require_all_new'])
    for fn in (leaf, comp):
        if [a.arg for a in fn.args.args] != sig or [U(d) for d in fn.args.defaults] != ['None', 'True']:
            raise Unsupported('_require_all_new: signature: ' + U(fn.args))
    lb = body(leaf)
    if len(lb) != 2 or U(lb[0]) != 'if not include_self:\n    return':
        raise Unsupported('ConfigNode._require_all_new: shape')
    c = lb[1]
    if not (isinstance(c, ast.If) and U(c.test) == 'not self.ayns.allow_new and (exceptions is None or path not in exceptions)' and not c.orelse
            and len(c.body) == 1 and isinstance(c.body[0], ast.Raise) and U(c.body[0].exc.func) == 'ValueError'):
        raise Unsupported('ConfigNode._require_all_new: the test: ' + U(c)[:160])
    cb = body(comp)
    if len(cb) != 2 or U(cb[0]) != 'seq = self.ayns.nodes_with_paths(prefix=path, include_self=include_self)':
        raise Unsupported('ComposedNode._require_all_new: the walk: ' + U(cb[0])[:160])
    loop = cb[1]
    if not (isinstance(loop, ast.For) and U(loop.target) == '(p, n)' and U(loop.iter) == 'seq' and not loop.orelse and len(loop.body) == 1):
        raise Unsupported('ComposedNode._require_all_new: the loop')
    c = loop.body[0]
    if not (isinstance(c, ast.If) and U(c.test) == 'not n.ayns.allow_new and (exceptions is None or p not in exceptions)' and not c.orelse
            and len(c.body) == 1 and isinstance(c.body[0], ast.Raise) and U(c.body[0].exc.func) == 'ValueError'):
        raise Unsupported('ComposedNode._require_all_new: the test: ' + U(c)[:160])
    ok = '(fun pn : path * node => negb (andb (negb (allow_new (nflags (snd pn)))) (negb (path_in (fst pn) exceptions))))'
    return ('Definition require_all_new (n : node) (p : path) (exceptions : list path) (include_self : bool) : bool :=\n'
            '  match n with\n'
            f'  | Leaf _ _ _ => if negb include_self then true else {ok} (p, n)\n'
            f'  | Comp _ _ _ _ => forallb {ok} (nodes_with_paths p n include_self)\n'
            '  end.')


def flatten_src():
    """Builder.flatten and ConfigNode.merge (round 7), exact-text tables; what is translated is the ORDER: all stages are mappings, the first
    stage is premerged against nothing and must allow new paths everywhere, then the stages are merged into it left to right, in index order,
    each one premerged against the current root before the recursive merge at the empty path.  CONVENTIONS: stages are already preprocessed
    (a stream as the first stage is outside this model function); the fuel of on_merge is the model's own; premerge mutates `other` and the
    older tree in place - the model returns both (other', root') and the aliases left by !clear."""
    def body(fn):
        return [x for x in fn.body if not (isinstance(x, ast.Expr) and isinstance(x.value, ast.Constant))]
    m = [U(x) for x in body(find_func('nodes/node.py', ['ConfigNode', 'ayns', 'merge']))]
    if len(m) != 3 or not m[0].startswith('if other is None:') or m[1:] != ['other.ayns.premerge(self)', 'return self.ayns.on_merge(NodePath(), other)']:
        raise Unsupported('ConfigNode.merge: ' + repr(m)[:300])
    merge2 = ("Definition merge2 (e : penv) (root other : node) : res node :=\n"
              "  do x <- on_premerge e [] other (Some root);\n"
              "  let '(other', root', _, als) := x in\n"
              "  let root1 := match root' with Some r => r | None => root end in\n"
              "  do r <- on_merge als (nsize root1 + nsize other' + 1) [] root1 other';\n"
              "  Ok (fst r).")
    f = [U(x) for x in body(find_func('builder.py', ['Builder', 'flatten']))]
    table = ["for stage in self.stages:\n    if not isinstance(stage, dict):\n        raise ValueError('Not all stages are dictionaries')",
             'new_stage = self.stages[0].ayns.premerge(None)',
             'if new_stage is not self.stages[0]:\n    try:\n        self.stages[0:1] = new_stage.stages\n    except AttributeError:\n        self.stages[0] = new_stage',
             None,   # the _require_all_new of the first stage (checked below)
             'if len(self.stages) < 2:\n    return',
             'root = self.stages[0]',
             'for i in range(1, len(self.stages)):\n    root = root.ayns.merge(self.stages[i])',
             'self.stages = [root]']
    if len(f) != len(table):
        raise Unsupported('Builder.flatten: %d statements, expected %d' % (len(f), len(table)))
    for got, want in zip(f, table):
        if want is not None and got != want:
            raise Unsupported('Builder.flatten: statement outside the table: ' + got[:160])
    if not (f[3].startswith('with errors.rethrow_point(errors.MergeError, self.stages[0], None, None):\n    self.stages[0].ayns._require_all_new([], ') and f[3].count('\n') == 1):
        raise Unsupported('Builder.flatten: the check of the first stage: ' + f[3][:160])
    flat = ("Definition flatten (e : penv) (stages : list node) : res node :=\n"
            "  match stages with\n  | [] => Err EOther []\n  | s0 :: rest =>\n"
            "    if forallb is_dictk stages then\n"
            "      do x <- on_premerge e [] s0 None;\n      let '(s0', _, _, _) := x in\n"
            "      if require_all_new s0' [] [] true then\n"
            "        fold_left (fun acc st => do root <- acc; merge2 e root st) rest (Ok s0')\n"
            "      else Err EMerge []\n    else Err EOther []\n  end.")
    return merge2 + '\n' + flat


def main(out):
    L = ['(* GENERATED by tools/translate_merge.py from the Python source in the working tree of /repo - do not edit *)',
         'From AY Require Import Model.Merge.', 'Open Scope Z_scope.', 'Module SrcM.',
         'Definition func_of (n : node) : scalar := match n with Comp _ _ x _ => x | Leaf _ _ v => v end.']

    def base_env():
        e = Env()
        e.nodes['self'] = ('s', 'Self')
        e.nodes['other'] = ('o', 'Other')
        return e

    # ConfigNode.ayns.on_merge_impl: the leaf rule
    fn = find_func('nodes/node.py', ['ConfigNode', 'ayns', 'on_merge_impl'])
    L.append('Definition leaf_rule (s o : node) : res (node * who) :=\n  ' + Sk('merge').block(fn.body, base_env()) + '.')
    L.append('Definition leaf_merge (s o : node) : node * who := match leaf_rule s o with Ok r => r | Err _ _ => (s, Self) end.')
    # ComposedNode.ayns.on_merge_impl
    fn = find_func('nodes/composed.py', ['ComposedNode', 'ayns', 'on_merge_impl'])
    L.append('Definition comp_merge (rec : path -> node -> node -> res (node * who)) (p : path) (s o : node) : res (node * who) :=\n  '
             + Sk('merge').block(fn.body, base_env()) + '.')
    # FunctionNode.on_merge_impl
    fn = find_func('nodes/function.py', ['FunctionNode', 'on_merge_impl'])
    L.append('Definition func_merge (super_merge : path -> node -> node -> res (node * who)) (p : path) (s o : node) : res (node * who) :=\n  '
             + Sk('merge', 'prefix').block(fn.body, base_env()) + '.')
    # ConfigList.on_merge_impl
    fn = find_func('nodes/list.py', ['ConfigList', 'on_merge_impl'])
    test, rest = list_keys_guard(fn)
    sk = Sk('merge', 'prefix')
    e = base_env()
    guard = sk.bool(test, e)
    # `if isinstance(other, ComposedNode): other.ayns.filter_nodes(keep_if_exists)` then the inherited rule
    body = sk.block(rest, e)
    L.append('Definition list_merge (super_merge : path -> node -> node -> res (node * who)) (p : path) (s o : node) : res (node * who) :=\n  '
             f'(if (andb {guard} (negb (dict_keys_ok (zlen (children s)) (children o)))) then Err EMerge p else\n  {body}).')
    L.append(require_all_new_src())
    L.append(flatten_src())
    L.append('End SrcM.')
    text = '\n'.join(L) + '\n'
    old = open(out).read() if os.path.exists(out) else None
    if old != text:
        open(out, 'w').write(text)
        print('srcmerge: regenerated')
    else:
        print('srcmerge: unchanged')


if __name__ == '__main__':
    main(sys.argv[1])
