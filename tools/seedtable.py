#!/usr/bin/env python3
"""regenerate the seeded-change table of DESIGN.md section 0.7 from seeded/*/meta.json, the patches and seeded/RESULTS.txt"""
import os, json, re
root = '/verif/seeded'
res = {}
for line in open(os.path.join(root, 'RESULTS.txt')):
    m = re.match(r'(\S+) vs (C\d+): (DETECTED|MISSED)(.*)', line)
    if m:
        obl = 'no-failing-input-found' in line and line.count('VIOLATION') == line.count('no-failing-input-found')
        res.setdefault(m.group(1), []).append(f"{m.group(2)} {m.group(3)}" + (' (*obligation only*)' if obl and m.group(3) == 'DETECTED' else ''))
rows = []
for s in sorted(os.listdir(root)):
    d = os.path.join(root, s)
    if not os.path.isdir(d):
        continue
    meta = json.load(open(os.path.join(d, 'meta.json')))
    files = sorted(set(re.findall(r'^\+\+\+ b/awesomeyaml/(\S+)', open(os.path.join(d, 'patch.diff'), newline='').read(), flags=re.M)))
    needs = meta['needs_to_manifest'].replace('|', '/').replace('\n', ' ')
    rows.append(f"| `{s}` | {', '.join(files)} | {needs[:240]} | {'; '.join(res.get(s, ['not run']))} |")
table = '| seeded change | file(s) | needs, to show | check: result |\n|---|---|---|---|\n' + '\n'.join(rows) + '\n'
doc = open('/verif/DESIGN.md').read()
i = doc.index('| seeded change | file(s) | needs, to show | check: result |')
j = doc.index('\n\n', i)
doc = doc[:i] + table.rstrip('\n') + doc[j:]
open('/verif/DESIGN.md', 'w').write(doc)
print(len(rows), 'rows;', sum('MISSED' in r for r in rows), 'missed;', sum('obligation only' in r for r in rows), 'obligation only')
