#!/bin/bash
# apply every seeded change to /repo in turn, run the quick checks named in its meta.json, undo; one line per (seed, check)
cd /verif
out=${1:-/verif/seeded/RESULTS.txt}
: > $out
for s in $(ls seeded | grep '^C'); do
  if ! git -C /repo apply --check /verif/seeded/$s/patch.diff 2>/dev/null; then echo "$s: PATCH DOES NOT APPLY" >> $out; continue; fi
  python3 tools/seedtest.py /verif/seeded/$s 2>&1 | grep " vs " | cut -c1-260 >> $out
  rm -rf /verif/replays
done
git -C /repo status --short >> $out
