def patch(path, old, new, count=1):
    s = open(path, newline='').read()
    crlf = '\r\n' in s
    if crlf:
        old = old.replace('\n', '\r\n'); new = new.replace('\n', '\r\n')
    assert s.count(old) == count, (path, old, s.count(old))
    open(path, 'w', newline='').write(s.replace(old, new))
