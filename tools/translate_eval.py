#!/venv/bin/python
"""T1d: translate the control skeleton of EvalContext.evaluate_node from its Python source into Gallina over the primitives of Model/Eval.v
(coq/Gen/SrcEval.v), fail-closed.  What is translated: the ORDER of the steps - the safety check comes before the memo lookup, the memo is
consulted before the node is entered, the node's own evaluation runs between entering and recording - and which of them can end the call.
Statement table (exact source text -> model step); anything else raises:
  not a node -> returned as is                      (outside the model: the model evaluates nodes)
  _eval_stack.append / .pop, prefix normalisation   (diagnostics / normalisation: no model step)
  if self._require_all_safe: if not cfgobj.ayns.safe: raise UnsafeError     -> if ras then if negb (safe n) then Err EUnsafe p
  if id(cfgobj) in self._eval_cache_id: return ...                          -> match lookup_path p (done st) with Some v => Ok (v, st)
  evaluated_parent bookkeeping (the partial result tree)                    (no model step: the model's memo is keyed by path)
  self._in_progress.add(id(cfgobj))                 -> entering: a node that is already being evaluated is the model's re-entrancy error,
                                                      otherwise push p (CONVENTION: Python's unbounded recursion is modelled as EEval)
  try: evaluated = cfgobj.ayns.on_evaluate(prefix, self) finally: discard   -> do vr <- on_evaluate ras n p st
  self._eval_cache[str(prefix)] = evaluated         (the path memo: same memo in the model)
  self._eval_cache_id[utils.persistent_id(cfgobj)] = evaluated              -> finish p v st
  return evaluated                                  -> Ok (v, st)
Proofs/SrcEvalOk.v proves the generated definition equal to Model.Eval.eval_node."""
import sys, os, ast

sys.path.insert(0, os.path.dirname(os.path.abspath(__file__)))
from translate_src import find_func, Unsupported  # noqa: E402


def U(x):
    return ast.unparse(x)


def main(out):
    fn = find_func('eval_context.py', ['EvalContext', 'evaluate_node'])
    stmts = [s for s in fn.body if not (isinstance(s, ast.Expr) and isinstance(s.value, ast.Constant))]

    def block(i, st, v):
        """Gallina for stmts[i:] with the current state term st and the evaluated value term v (None before on_evaluate)"""
        if i == len(stmts):
            raise Unsupported('evaluate_node falls off its end')
        s = stmts[i]
        src = U(s)
        if src == 'if not isinstance(cfgobj, ConfigNode):\n    return cfgobj':
            return block(i + 1, st, v)
        if src in ('self._eval_stack.append(prefix)', 'prefix = NodePath.get_list_path(prefix, check_types=False) or NodePath()', 'evaluated_parent = None',
                   'self._eval_stack.pop()', 'self._eval_cache[str(prefix)] = evaluated_cfgobj'):
            return block(i + 1, st, v)
        if isinstance(s, ast.If) and U(s.test) == 'self._require_all_safe' and not s.orelse and len(s.body) == 1 and isinstance(s.body[0], ast.If) \
                and U(s.body[0].test) == 'not cfgobj.ayns.safe' and not s.body[0].orelse and len(s.body[0].body) == 1 and isinstance(s.body[0].body[0], ast.Raise) \
                and U(s.body[0].body[0].exc.func) == 'errors.UnsafeError':
            rest = block(i + 1, st, v)
            return f'(if ras then (if negb (safe (nflags n)) then Err EUnsafe p else {rest}) else {rest})'
        if src == 'if id(cfgobj) in self._eval_cache_id:\n    return self._eval_cache_id[id(cfgobj)]':
            if v is not None: raise Unsupported('memo lookup after the evaluation')
            return f'(match lookup_path p (done {st}) with Some v0 => Ok (v0, {st}) | None => {block(i + 1, st, v)} end)'
        if isinstance(s, ast.If) and U(s.test) == 'prefix' and not s.orelse and all(('enode' in U(b) or 'evaluated_parent' in U(b)) and 'cfgobj' not in U(b) for b in s.body):
            return block(i + 1, st, v)
        if src == 'self._in_progress.add(id(cfgobj))':
            return f'(if path_in p (stack {st}) then Err EEval p else {block(i + 1, f"(push p {st})", v)})'
        if isinstance(s, ast.Try) and len(s.body) == 1 and U(s.body[0]) == 'evaluated_cfgobj = cfgobj.ayns.on_evaluate(prefix, self)' and not s.handlers and not s.orelse \
                and len(s.finalbody) == 1 and U(s.finalbody[0]) == 'self._in_progress.discard(id(cfgobj))':
            if v is not None: raise Unsupported('two evaluations')
            return f'(do vr <- on_evaluate ras n p {st}; {block(i + 1, "(snd vr)", "(fst vr)")})'
        if src == 'if evaluated_parent is not None:\n    evaluated_parent[prefix[-1]] = evaluated_cfgobj':
            return block(i + 1, st, v)
        if src == 'self._eval_cache_id[utils.persistent_id(cfgobj)] = evaluated_cfgobj':
            if v is None: raise Unsupported('recording before the evaluation')
            return block(i + 1, f'(finish p {v} {st})', v)
        if src == 'return evaluated_cfgobj':
            if v is None: raise Unsupported('returning before the evaluation')
            return f'Ok ({v}, {st})'
        raise Unsupported('evaluate_node: statement outside the table: ' + src[:120])

    body = block(0, 'st', None)
    text = ('(* GENERATED by tools/translate_eval.py from the Python source in the working tree of /repo - do not edit *)\n'
            'From AY Require Import Model.Eval.\nOpen Scope Z_scope.\nModule SrcE.\n'
            'Definition eval_node (on_evaluate : bool -> node -> path -> est -> res (value * est)) (ras : bool) (n : node) (p : path) (st : est) : res (value * est) :=\n  '
            + body + '.\nEnd SrcE.\n')
    old = open(out).read() if os.path.exists(out) else None
    if old != text:
        open(out, 'w').write(text)
        print('srceval: regenerated')
    else:
        print('srceval: unchanged')


if __name__ == '__main__':
    main(sys.argv[1])
