#!/venv/bin/python
"""T1d: translate the control skeleton of EvalContext.evaluate_node from its Python source into Gallina over the primitives of Model/Eval.v
(coq/Gen/SrcEval.v), fail-closed.  What is translated: the ORDER of the steps - the safety check comes before the memo lookup, the memo is
consulted before the node is entered, the node's own evaluation runs between entering and recording - and which of them can end the call.
Statement table (exact source text -> model step); anything else raises:
  not a node -> returned as is                      (outside the model: the model evaluates nodes)
  _eval_stack.append / .pop, prefix normalisation   (diagnostics / normalisation: no model step)
  if self._require_all_safe: if not cfgobj.ayns.safe: raise UnsafeError     -> if ras then if negb (safe n) then Err EUnsafe p
  if id(cfgobj) in self._eval_cache_id: return ...                          -> match lookup_path p (done st) with Some v => Ok (v, st)
  evaluated_parent bookkeeping (the partial result tree)                    (no model step: the model's memo is keyed by path)
  self._in_progress.add(id(cfgobj))                 -> entering: a node that is already being evaluated is the model's re-entrancy error,
                                                      otherwise push p (CONVENTION: Python's unbounded recursion is modelled as EEval)
  try: evaluated = cfgobj.ayns.on_evaluate(prefix, self) finally: discard   -> do vr <- on_evaluate ras n p st
  self._eval_cache[str(prefix)] = evaluated         (the path memo: same memo in the model)
  self._eval_cache_id[utils.persistent_id(cfgobj)] = evaluated              -> finish p v st
  return evaluated                                  -> Ok (v, st)
Proofs/SrcEvalOk.v proves the generated definition equal to Model.Eval.eval_node.

Extension (round 7): Config.check_missing, Config.__init__ and EvalContext.evaluate, same fail-closed exact-text tables:
  check_missing:  missing = []; for path, node in cfg.ayns.nodes_with_paths(): if isinstance(node, RequiredNode): missing.append(repr(path))
                                                    -> map fst (filter (fun pn => is_required (snd pn)) (nodes_with_paths [] t false))
                  if missing: raise ValueError(...) -> (the caller's match: [] continues, otherwise Err EMissing)
  __init__:       argument normalisation, self._source / self._user_data bookkeeping          (no model step)
                  if config_dict: ... else: evaluated = {}    (CONVENTION: the empty mapping evaluates to the empty dict either way)
                  Config.check_missing(config_dict)           -> match check_missing t with [] => ... | m => Err EMissing (hd [] m)
                  pre_evaluate = copy.deepcopy(config_dict)   -> let t' := recopy t
                  if eval_ctx is None: eval_ctx = EvalContext()   (EvalContext.__init__ must set _require_all_safe = False -> ras = false)
                  evaluated = eval_ctx.evaluate(pre_evaluate) -> evaluate pe fe false t'
  evaluate:       self._cfg = config_dict; both caches cleared BEFORE evaluate_node(self.cfg) -> ev t pe fe fuel ras t [] st0
                  (the fuel 2 * nsize t + 2 is the model's own; CONVENTION)
The ORDER is what is translated: the scan runs on the tree the caller passed, before the copy, and the copy - not the original - is evaluated."""
import sys, os, ast

sys.path.insert(0, os.path.dirname(os.path.abspath(__file__)))
from translate_src import find_func, Unsupported  # noqa: E402


def U(x):
    return ast.unparse(x)


def body_of(fn):
    return [s for s in fn.body if not (isinstance(s, ast.Expr) and isinstance(s.value, ast.Constant))]


def check_missing_src():
    st = body_of(find_func('config.py', ['Config', 'check_missing']))
    if len(st) != 3 or U(st[0]) != 'missing = []':
        raise Unsupported('check_missing: unexpected shape')
    loop, tail = st[1], st[2]
    if not (isinstance(loop, ast.For) and U(loop.target) == '(path, node)' and U(loop.iter) == 'cfg.ayns.nodes_with_paths()' and not loop.orelse and len(loop.body) == 1):
        raise Unsupported('check_missing: loop header: ' + U(loop)[:100])
    c = loop.body[0]
    if not (isinstance(c, ast.If) and U(c.test) == 'isinstance(node, RequiredNode)' and not c.orelse and len(c.body) == 1 and U(c.body[0]) == 'missing.append(repr(path))'):
        raise Unsupported('check_missing: loop body: ' + U(c)[:100])
    if not (isinstance(tail, ast.If) and U(tail.test) == 'missing' and not tail.orelse and len(tail.body) == 1 and isinstance(tail.body[0], ast.Raise)
            and U(tail.body[0].exc.func) == 'ValueError' and 'missing' in U(tail.body[0].exc)):
        raise Unsupported('check_missing: the report: ' + U(tail)[:100])
    # defaults of nodes_with_paths: prefix=None, include_self=False (read from the source)
    nwp = find_func('nodes/composed.py', ['ComposedNode', 'ayns', 'nodes_with_paths'])
    names = [a.arg for a in nwp.args.args]
    dflt = dict(zip(names[len(names) - len(nwp.args.defaults):], [U(d) for d in nwp.args.defaults]))
    if dflt.get('prefix') != 'None' or dflt.get('include_self') != 'False' or dflt.get('recursive') != 'True' or dflt.get('allow_duplicates') != 'True':
        raise Unsupported('nodes_with_paths: defaults changed: ' + repr(dflt))
    return 'map fst (filter (fun pn => is_required (snd pn)) (nodes_with_paths [] t false))'


def evaluate_src():
    init = body_of(find_func('eval_context.py', ['EvalContext', '__init__']))
    ras = [U(s) for s in init if 'self._require_all_safe' in U(s)]
    if ras != ['self._require_all_safe = False']:
        raise Unsupported('EvalContext.__init__: _require_all_safe: ' + repr(ras))
    st = body_of(find_func('eval_context.py', ['EvalContext', 'evaluate']))
    seen, done = [], False
    for s in st:
        src = U(s)
        if src in ('self._cfg = config_dict', 'self._eval_cache.clear()', 'self._eval_cache_id.clear()'):
            if done: raise Unsupported('evaluate: set-up after the evaluation')
            seen.append(src)
        elif src in ('self._ecfg = EvalContext.PartialChild(NodePath(), self, self._cfg)', 'self.user_data = Bunch()'):
            pass
        elif isinstance(s, ast.Try) and len(s.body) == 1 and U(s.body[0]) == 'ret = self.evaluate_node(self.cfg)' and not s.handlers and not s.orelse \
                and all(U(f) in ('self._eval_cache.clear()', 'self._eval_cache_id.clear()', 'self._cfg = None', 'self._ecfg = None') for f in s.finalbody):
            if sorted(seen) != sorted(['self._cfg = config_dict', 'self._eval_cache.clear()', 'self._eval_cache_id.clear()']):
                raise Unsupported('evaluate: the root / the cleared caches before evaluate_node: ' + repr(seen))
            done = True
        elif src == 'return ret':
            if not done: raise Unsupported('evaluate: returns before evaluating')
        else:
            raise Unsupported('evaluate: statement outside the table: ' + src[:120])
    cfgprop = body_of(find_func('eval_context.py', ['EvalContext', 'cfg']))
    if [U(x) for x in cfgprop][-1:] != ['return self._cfg'] or any(not (isinstance(x, ast.If) and U(x.test) == 'self._cfg is None' and isinstance(x.body[0], ast.Raise)) for x in cfgprop[:-1]):
        raise Unsupported('EvalContext.cfg: ' + repr([U(x) for x in cfgprop]))
    return 'ev t pe fe (2 * nsize t + 2) ras t [] st0'


def init_src():
    st = body_of(find_func('config.py', ['Config', '__init__']))
    srcs = [U(s) for s in st]
    pre = ["if config_dict is not None and (not isinstance(config_dict, dict)):\n    raise ValueError('dict or None expected')",
           'if not isinstance(config_dict, ConfigDict):\n    config_dict = ConfigDict(config_dict)', 'self._source = config_dict', 'self._user_data = None']
    if srcs[:4] != pre or len(st) != 6 or srcs[5] != 'super().__init__(evaluated)':
        raise Unsupported('Config.__init__: unexpected shape: ' + repr(srcs)[:300])
    br = st[4]
    if not (isinstance(br, ast.If) and U(br.test) == 'config_dict' and [U(x) for x in br.orelse] == ['evaluated = {}']):
        raise Unsupported('Config.__init__: the branch on an empty mapping')
    out, tree, checked, copied, evaluated = None, 't', False, False, False
    for s in br.body:
        src = U(s)
        if src == 'Config.check_missing(config_dict)':
            if copied or evaluated: raise Unsupported('Config.__init__: the scan does not come first')
            checked = True
        elif src == 'pre_evaluate = copy.deepcopy(config_dict)':
            if not checked: raise Unsupported('Config.__init__: copy before the scan')
            copied = True
        elif src == 'if eval_ctx is None:\n    eval_ctx = EvalContext()':
            pass
        elif src == 'evaluated = eval_ctx.evaluate(pre_evaluate)':
            if not (checked and copied): raise Unsupported('Config.__init__: evaluation before scan and copy')
            evaluated = True
        elif src == 'self._user_data = eval_ctx.user_data':
            if not evaluated: raise Unsupported('Config.__init__: user data before the evaluation')
        else:
            raise Unsupported('Config.__init__: statement outside the table: ' + src[:120])
    if not evaluated:
        raise Unsupported('Config.__init__: nothing is evaluated')
    return "match check_missing t with [] => (let t' := recopy t in evaluate pe fe false t') | m => Err EMissing (hd [] m) end"


def main(out):
    fn = find_func('eval_context.py', ['EvalContext', 'evaluate_node'])
    stmts = [s for s in fn.body if not (isinstance(s, ast.Expr) and isinstance(s.value, ast.Constant))]

    def block(i, st, v):
        """Gallina for stmts[i:] with the current state term st and the evaluated value term v (None before on_evaluate)"""
        if i == len(stmts):
            raise Unsupported('evaluate_node falls off its end')
        s = stmts[i]
        src = U(s)
        if src == 'if not isinstance(cfgobj, ConfigNode):\n    return cfgobj':
            return block(i + 1, st, v)
        if src in ('self._eval_stack.append(prefix)', 'prefix = NodePath.get_list_path(prefix, check_types=False) or NodePath()', 'evaluated_parent = None',
                   'self._eval_stack.pop()', 'self._eval_cache[str(prefix)] = evaluated_cfgobj'):
            return block(i + 1, st, v)
        if isinstance(s, ast.If) and U(s.test) == 'self._require_all_safe' and not s.orelse and len(s.body) == 1 and isinstance(s.body[0], ast.If) \
                and U(s.body[0].test) == 'not cfgobj.ayns.safe' and not s.body[0].orelse and len(s.body[0].body) == 1 and isinstance(s.body[0].body[0], ast.Raise) \
                and U(s.body[0].body[0].exc.func) == 'errors.UnsafeError':
            rest = block(i + 1, st, v)
            return f'(if ras then (if negb (safe (nflags n)) then Err EUnsafe p else {rest}) else {rest})'
        if src == 'if id(cfgobj) in self._eval_cache_id:\n    return self._eval_cache_id[id(cfgobj)]':
            if v is not None: raise Unsupported('memo lookup after the evaluation')
            return f'(match lookup_path p (done {st}) with Some v0 => Ok (v0, {st}) | None => {block(i + 1, st, v)} end)'
        if isinstance(s, ast.If) and U(s.test) == 'prefix' and not s.orelse and all(('enode' in U(b) or 'evaluated_parent' in U(b)) and 'cfgobj' not in U(b) for b in s.body):
            return block(i + 1, st, v)
        if src == 'self._in_progress.add(id(cfgobj))':
            return f'(if path_in p (stack {st}) then Err EEval p else {block(i + 1, f"(push p {st})", v)})'
        if isinstance(s, ast.Try) and len(s.body) == 1 and U(s.body[0]) == 'evaluated_cfgobj = cfgobj.ayns.on_evaluate(prefix, self)' and not s.handlers and not s.orelse \
                and len(s.finalbody) == 1 and U(s.finalbody[0]) == 'self._in_progress.discard(id(cfgobj))':
            if v is not None: raise Unsupported('two evaluations')
            return f'(do vr <- on_evaluate ras n p {st}; {block(i + 1, "(snd vr)", "(fst vr)")})'
        if src == 'if evaluated_parent is not None:\n    evaluated_parent[prefix[-1]] = evaluated_cfgobj':
            return block(i + 1, st, v)
        if src == 'self._eval_cache_id[utils.persistent_id(cfgobj)] = evaluated_cfgobj':
            if v is None: raise Unsupported('recording before the evaluation')
            return block(i + 1, f'(finish p {v} {st})', v)
        if src == 'return evaluated_cfgobj':
            if v is None: raise Unsupported('returning before the evaluation')
            return f'Ok ({v}, {st})'
        raise Unsupported('evaluate_node: statement outside the table: ' + src[:120])

    body = block(0, 'st', None)
    cm, cfg, evl = check_missing_src(), init_src(), evaluate_src()
    text = ('(* GENERATED by tools/translate_eval.py from the Python source in the working tree of /repo - do not edit *)\n'
            'From AY Require Import Model.Eval.\nOpen Scope Z_scope.\nModule SrcE.\n'
            'Definition eval_node (on_evaluate : bool -> node -> path -> est -> res (value * est)) (ras : bool) (n : node) (p : path) (st : est) : res (value * est) :=\n  '
            + body + '.\n'
            'Definition check_missing (t : node) : list path :=\n  ' + cm + '.\n'
            'Definition evaluate (pe : penv) (fe : fenv) (ras : bool) (t : node) : res (value * est) :=\n  ' + evl + '.\n'
            'Definition config (pe : penv) (fe : fenv) (t : node) : res (value * est) :=\n  ' + cfg + '.\n'
            'End SrcE.\n')
    old = open(out).read() if os.path.exists(out) else None
    if old != text:
        open(out, 'w').write(text)
        print('srceval: regenerated')
    else:
        print('srceval: unchanged')


if __name__ == '__main__':
    main(sys.argv[1])
