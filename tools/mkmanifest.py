#!/usr/bin/env python3
"""Regenerate /verif/MANIFEST.json from the table below (kept here so that the manifest is always valid)."""
import json, os

HERE = os.path.dirname(os.path.dirname(os.path.abspath(__file__)))

COMMON_NOTE = ('Trusted: Coq 8.16.1 kernel + vm_compute; tools/extract_facts.py; the Python->Coq term printer and generators (vlib/); '
               'the hand-written Gallina model is tied to /repo by correspondence checks run on every invocation (sampled for the tree recursion, '
               'exhaustive for finite flag logic). PyYAML, pickle/copy, CPython and error message text are modelled or left outside, not verified. '
               'Print Assumptions of every property theorem is captured into the evidence file (all: Closed under the global context unless stated).')

CHECKS = {
    'C02': dict(
        text='Machine-checked theorem C02_fold: for every sequence of tag-free mapping documents the model of Builder.flatten returns a tree whose content is '
             'the left fold of the reference update (Spec/Update.v), failing with MergeError exactly when the fold does; C02_no_key_lost / C02_untouched are the '
             'frame corollaries. Unbounded in nesting, keys and number of stages. The model is tied to the code on every run by sampled correspondence '
             '(Model.Merge.flatten = Builder.flatten on the implementation\'s own parsed stage trees incl. all raw flags; load_plain = yaml.parse on tag-free text).',
        design='4 (C02), 2.2',
        technique='Coq proof (induction on fuel + loop invariants) of refinement Model.Merge -> Spec.Update; model tied by vm_compute correspondence; Python fold oracle for replays'),
}

CHECKS['C17'] = dict(
    text='Machine-checked invariants-by-induction: C17_list_reachable / C17_dict_reachable (after ANY finite sequence of the public mutators, with arbitrary '
         'in-range, out-of-range, negative or non-integer indices, the child map equals the enumeration 0..n-1 of / the same entries as the built-in storage and every '
         'entry is a node), C17_list_error_unchanged (a raising operation leaves the list untouched), C17_walk_lookup (every (path,node) of the tree walk is found by get_node, '
         'for every well-formed tree) and C17_path_roundtrip (split(join p) = p for every path of identifier / decimal-index components, over character strings). '
         'Model.Container / Model.Path are tied to the code by correspondence after every single operation of generated sequences and on valid+invalid path strings; '
         'which mutators each class overrides is a regenerated fact (FactsOk).',
    design='4 (C17)',
    technique='Coq invariant proofs over operation sequences + lexer round-trip proof; vm_compute correspondence per operation; Python two-view oracle for replays')

CHECKS['C03'] = dict(
    text='Machine-checked: C03_binary (two writers of a leaf path, any flags: newer wins unless the older has strictly higher priority; survivor keeps its priority), '
         'C03_winner (any number of writers in any order: the fold of the binary rule is the LATEST writer of MAXIMAL priority - stated by the split pre <= W > post), '
         'C03_metadata (metadata keys of all competing values survive), C03_constants (force > standard > weak from the regenerated facts). '
         'has_priority_over and _replace_self/_replace_other are tied EXHAUSTIVELY (T2) to the real functions; the tree recursion by sampled correspondence on '
         'priority-tagged histories. C03_container_priority_applies_below (on the loader model: every node below a node whose effective tag priority is p '
         'has priority p, at any depth, whatever priority tags are written below; the loader model is tied to the real loader on priority-tagged documents). '
         'THE WHOLE MERGE AS A REFINEMENT (Spec/UpdateP.upd_p: two mappings merge key by key and the result carries the higher priority; otherwise the older value survives iff its priority is '
         'strictly higher): C03_priorities_refine - for any number of mapping documents whose scalars and enclosing mappings carry arbitrary !force/!weak/!metadata{{priority}} tags '
         '(no !del/!notnew marks; !new, !unsafe, user metadata free; LISTS are values taken as a whole - inside a list no node has a priority tag of its own, so the list carries one priority, its own tag or an enclosing one - under the side condition hcompat that a mapping never meets a list at the same path, which is decidable, vacuous without lists (C03_no_lists_no_side_condition), implied by the document-by-document reading "no document has a list where an earlier one has a mapping, or the other way round" (C03_side_condition_document_by_document) and checked by the correspondence), Builder.flatten succeeds and builds exactly the left fold of upd_p over the documents\' priority images (values AND priorities of all nodes; '
         'induction on the fuel, loop lemma loop_dict_z, invariants OldZ/NewZ); C03_every_leaf_path_latest_of_highest - at every path whose spine is mappings in every document, the merged '
         'value is that of the latest document among those of highest priority there (pre <= W > post), nothing if nobody writes it; C03_update_is_pointwise; C03_metadata_refines (Spec/UpdatePM.upd_pm: the same update with the user-metadata mapping of every node - at every meeting {**loser, **survivor} - refined by the merge on the same class: values, priorities AND metadata; C03_metadata_keys_at_every_meeting: no key lost, none invented; C03_metadata_forgets_to_priorities; tied to Builder.build by its own correspondence); C03_prediction_sound / '
         'C03_document_prediction_sound, C03_evaluated_config (down to the config a user gets: merge, placeholder check, deep copy, evaluation yield exactly the values of the fold) (the class is decidable; the correspondence runs the sound checker on the trees the real loader built and on the documents as written and compares the '
         'predicted tree with Builder.build: a value difference is a concrete failing input). Outside the class (priority tags INSIDE lists and lists meeting mappings - known findings D18/D5 live there -, !del/!notnew marks, '
         'dynamic nodes) the statement stays with the sampled merge correspondence and the latest-argmax / exact-metadata oracle.',
    design='4 (C03)',
    technique='Coq refinement proof (merge of prioritised mapping documents = fold of the reference update upd_p; per-path latest-argmax corollary) + exhaustive vm_compute correspondence of the priority logic + sampled correspondence of model, loader model and specification with Builder.build; Python latest-argmax / metadata oracle for replays')

CHECKS['C04'] = dict(
    text='Machine-checked: C04_exact / C04_exact_list (for ALL older trees - any depth, flags, key names - and all newer containers: if the newer node deletes, no older descendant '
         'strictly outranks what the newer node offers at the same RELATIVE path, the newer node is not outranked and may create its paths, then the merged content is exactly the '
         'newer content), C04_remove_key (value-less !del removes the key, mapping stays), C04_clear (!clear leaves an empty container of the original kind and flags), '
         'C04_defaults (lists and function nodes delete by default - regenerated fact). Effective delete / priority logic tied exhaustively (T2), tree recursion by sampled correspondence. '
         'C04_merge_marks_refine (any number of mapping documents whose only merge-control marks are !merge - on any lists / mappings, any safety marks - flatten to the fold of the '
         'decorated update Spec.UpdateM.upd_m: untagged lists replace, !merge lists and lists below !merge combine index-wise with the surplus appended, mappings combine key-wise; '
         'a MergeError exactly when the update fails), C04_merge_list_elementwise (length = the longer list; common positions hold the merge of the two elements, the rest is kept / appended), '
         'C04_class_checker_sound (membership in the theorem class is decidable; the check reports how many generated histories fall into it). The spec upd_m is additionally tied '
         'directly to Builder.build (decoration and class membership computed in Coq from the trees the real loader built). '
         'Partial: the general protected-overlay form (priorities below a deleting node) is decided by the correspondence plus a reference oracle, not by a theorem; '
         'lists holding lower-priority elements are a recorded known finding (D18).',
    design='4 (C04), 6 (D3, D4, D18)',
    technique='Coq proof that pruning empties an unprotected subtree and the replacement keeps exactly the newer content; exhaustive flag correspondence; sampled merge correspondence; scenario oracle for replays')

CHECKS['C05'] = dict(
    text='Machine-checked: C05_path_irrelevant (for ALL trees, tags and flags the merged node and outcome class do not depend on the path at which the merge happens - the path only '
         'reaches error reports; this is exactly what the repaired defect D3 violated), C05_wrap (wrapping both documents under the same key yields the unwrapped result under that key, '
         'up to implicit flags, unless the documented remove-this-key idiom applies; key chains by induction), C05_sim_content, C05_fuel_irrelevant (the model\'s fuel never matters once it suffices). '
         'Tied by sampled correspondence on wrapped/unwrapped histories; oracles: wrapped vs unwrapped build with wrapping keys drawn from the document alphabet, sibling independence, frame.',
    design='4 (C05)',
    technique='Coq proofs by induction on fuel with prefix-shift lemmas for filter_nodes / nodes_with_paths; sampled vm_compute correspondence; wrap / sibling / frame oracles for replays')

CHECKS['C15'] = dict(
    text='Machine-checked for tag-free histories: C15_idempotent_last_plain (repeating a well-formed last document gives a tree of equal content, or both builds fail), '
         'C15_empty_neutral_plain (an empty mapping document anywhere after the first is neutral), C15_update_idempotent (the reference update is idempotent; proof by fixpoint lemmas '
         'over key-unique mappings and index-addressed lists), C15_unsafe_marks_neutral_plain (whatever !unsafe / inherited / source-level safety marks each document carries on all of '
         'its nodes, the merged data is the same), C15_unsafe_marks_anywhere_neutral (!unsafe marks, !metadata without priority, source-level safety and source names placed on ANY nodes of '
         'otherwise tag-free documents, as the loader model builds them, never change the merged data or the outcome - by the generalised refinement Proofs/MergeGen.v), '
         'C15_key_order_neutral_plain + C15_permutation_is_peqv (permuting the entries of any mappings of any documents of a tag-free history of well-formed documents changes at most the '
         'order of keys of the result: the reference update is a congruence for equality-up-to-entry-order, Proofs/KeyOrder.v), '
         'all lifted to the model of Builder.flatten through the C02 refinement. WITH PRIORITY TAGS: C15_idempotent_last_prioritised - repeating the last document of any history of mapping '
         'documents whose scalars and enclosing mappings carry arbitrary priorities (the class of the C03 refinement) changes no value and no node priority; C15_empty_neutral_prioritised - an empty mapping document anywhere after the first one changes nothing below the root; C15_key_order_neutral_prioritised - histories that differ only in the order of mapping entries (at any depth) build trees equal up to that order, values and priorities (peqvp is a congruence for upd_p: upd_p_peqvp via the key-by-key characterisation updp_go_get; C15_permutation_is_peqvp) (C15_prioritised_update_idempotent, '
         'C15_prioritised_self_merge on the reference upd_p). Partial: for the other tagged histories (lists with priorities, !del, !merge) '
         'and for the !new neutrality clause the verdict comes from the correspondence (incl. exhaustive T2 sweeps of _get_child_kwargs and _propagate_implicit_values, '
         'the two procedures whose disagreement was defect D16) and five metamorphic oracles; determinism of the functional model is trivial and is checked on the implementation by building twice.',
    design='4 (C15), 6 (D16, D18)',
    technique='Coq proofs of idempotence / neutrality of the update fold lifted by refinement; exhaustive + sampled vm_compute correspondence; metamorphic oracles (twice, repeat-last, empty, permute, mark) for replays')

CHECKS['C08'] = dict(
    text='Machine-checked: C08_new_key_rejected (for every older container, depth and key: a key that does not exist, offered by a node that does not allow new paths, is a MergeError), '
         'C08_children_inherit (!notnew makes all children refuse creation, a nested !new re-allows it), C08_first_stage (a !notnew node anywhere in a first document fails the build). '
         'allow_new / _get_child_kwargs are tied exhaustively (T2); the recursion by sampled correspondence on !new/!notnew histories incl. function nodes. C08_cmdline_path: for EVERY non-empty sequence of '
         'well-formed name[index]* groups the inline-option parser recovers exactly the path NodePath renders (the translation to YAML text is tied character by character to '
         'Config.process_cmdline). C08_override_sets_exactly_that_path / C08_override_mistyped_path_is_an_error: the loaded override document, merged into ANY plain base '
         'along a path through mappings and list indices, yields the base with exactly that path set (every other entry and the order unchanged) when the path exists, and a MergeError '
         'when a key is missing or an index lies beyond the end (the override document of the model is tied to the parsed document of the real command line on all raw flags). '
         'C08_notnew_is_update_without_new_paths: the GLOBAL statement for tag-free content - any number of tag-free mapping documents followed by ANY tag-free mapping document marked '
         '!notnew at its root (as the loader builds it) flattens to Spec.UpdateNN.upd_nn of the config built so far: the same content when that no-new-path update succeeds, a MergeError '
         'otherwise; C08_notnew_stages_anywhere: the same with !notnew stages ANYWHERE in a sequence whose other stages are free of priority / delete / new tags (any safety marks); C08_no_new_path: every path of the result is a path of the config built so far; C08_notnew_agrees_with_plain_merge: when it succeeds it is the ordinary update. '
         'The spec upd_nn is additionally tied directly to Builder.build by correspondence (data or MergeError). '
         'Partial: for overlays / bases that carry further tags (priorities, !del, nested !new, function nodes, list operators) the '
         'statement "no path exists afterwards that did not exist before" is decided by the correspondence and by the reference oracles (path-existence rule; negative indices), not by a theorem.',
    design='4 (C08)',
    technique='Coq refinement proof (merge of a !notnew overlay = no-new-path update, by induction on fuel / documents) + lemmas on the creation gate of the merge loop + exhaustive flag correspondence + sampled merge / spec correspondence; path-existence and command-line oracles for replays')

CHECKS['C16'] = dict(
    text='Machine-checked: C16_append (for every older tree and target path: the operator hands over the very node found at the path with its elements followed by the new ones, '
         'in order, content unchanged, and detaches it), C16_append_missing / C16_append_nonlist (failure), C16_extend_fallback (nothing to extend: a plain list, older tree untouched), '
         'C16_prev (the entire previous subtree - the node get_node finds, not another element: what defect D14 violated - is moved), C16_detach_frame (detaching a mapping key removes '
         'exactly that key). The premerge state-passing and the subsequent merge are tied by sampled correspondence on operator histories. END TO END: C16_append_end_to_end - for every tag-free config (any nesting, unique keys) '
         'holding a list at a path q through mappings and every document that is a chain of one-entry mappings along q ending in !append L, the whole of root.merge(doc) (premerge: detach + '
         'extend; then the merge, via the C02 refinement) succeeds with content app_at(config, q, L); C16_append_result_at_path (the value at q is the previous list followed by L, in order) and '
         'C16_append_every_other_path_kept (every path that leaves the spine of q keeps its value; the list key moves to the end of its mapping); app_at is tied to Builder.build by correspondence '
         '(content and key order). C16_prev_end_to_end: for a document {q: !prev p} with p reached through mappings and q a new key, the whole merge yields the config without p (prem; C16_prev_every_other_path_kept) plus the entire previous subtree of p under q. C16_extend_end_to_end (a list at the path: as !append) and C16_extend_fallback_end_to_end (nothing / no list there: the whole merge IS the reference update with the plain list). Partial: several operators in one document and targets below tagged content are decided by the correspondence plus the scenario '
         'oracle; targets reached through a list index are a recorded known finding (D15).',
    design='4 (C16), 6 (D14, D15)',
    technique='Coq lemmas on remove_node / extend_node / on_premerge and an end-to-end refinement theorem for !append; sampled vm_compute correspondence of premerge+merge; scenario oracle (existing/missing/non-list targets, two operators, dotted keys) for replays')

CHECKS['C09'] = dict(
    text='Machine-checked: C09_alias (a !xref evaluates to the very same object - value and identity - recorded for the path at the end of its chain; both paths hold it; any tree, state, order), '
         'C09_recorded_forever (a recorded object is never replaced during the build), C09_chain_terminates (for every well-formed tree and reference graph the chain loop never exhausts the '
         'budget |tree|+1: each step adds a new existing path - pigeonhole via NoDup_incl_length), C09_self_reference (error). Partial: termination of the WHOLE evaluator (cycles through '
         'containers end in Python\'s recursion limit, modelled as a re-entrancy error) is runtime behaviour - covered by the correspondence under a 3 s watchdog and by the reference-graph oracle.',
    design='4 (C09), 6 (D8, D9)',
    technique='Coq proofs over the memoising evaluator model (state-extension invariant, pigeonhole for the chain loop); sampled vm_compute correspondence incl. object identities; reference-graph oracle with watchdog for replays')
CHECKS['C10'] = dict(
    text='Machine-checked: C10_at_most_once (in every successful build the dynamic events - call/bind/eval - have pairwise distinct paths and each has its result recorded), '
         'C10_memo_invariant (the state-extension invariant for every evaluation step: recorded, never overwritten, in-progress nodes not completed by nested evaluation, fresh distinct events), '
         'C10_same_object (any later evaluation of the same path returns the recorded object and changes nothing). C10_exactly_once: a successful build of ANY well-formed tree (unique keys, lists numbered from 0: C10_wellformed_trees) '
         'has a recorded result for every node and has run every dynamic node of the evaluated tree - with at-most-once: exactly once, for every graph of references and order of keys. '
         'Partial: key-order independence of the VALUES and "overwritten nodes never run" are decided by the correspondence (the model logs the same calls in the same order as the '
         'implementation) and the oracles.',
    design='4 (C10)',
    technique='Coq invariant proof over the evaluator model; sampled vm_compute correspondence of values, identities and call order; counting / permutation / overwrite oracles for replays')
CHECKS['C14'] = dict(
    text='Machine-checked: C14_scan_complete (the scan reports exactly the paths of the placeholders, uniformly for mappings, lists and call/bind arguments), C14_paths_resolve (every reported path '
         'resolves back to its placeholder in a well-formed tree), C14_iff (construction fails with the missing-placeholder error exactly when the scan is non-empty, before any state/event exists; '
         'evaluation itself never produces that error). That an overridden/deleted placeholder is gone from the merged tree is C02/C04; the whole pipeline is tied by the evaluator correspondence.',
    design='4 (C14)',
    technique='Coq proofs about check_missing / nodes_with_paths and the error classes of the evaluator model; sampled vm_compute correspondence; oracle comparing the listed paths with an independent tree walk (incl. aliased placeholders)')

CHECKS['C07'] = dict(
    text='Machine-checked: C07_gate (an unsafe !call/!bind/!eval/f-string/!import node never runs: error, no state, no event), C07_no_unsafe_execution (in EVERY successful build every '
         'call / bind / exec / import event belongs to a node of the evaluated tree that is safe - global invariant over the whole evaluator, any tree, any reference graph), '
         'C07_arguments_checked_first (under require_all_safe the check precedes the cache), C07_merge_spreads_unsafety + C07_container_flags_spread + C07_inherited_mark_sticky '
         '(no merge rule, adoption or re-propagation clears an explicit, source-level or inherited unsafe mark). The full taint clause is REFUTED on the faithful model with a witness that '
         'replays on the implementation (C07_taint_refuted / _order_dependent = known finding D21). Partial: what evaluated user code does with safe values is Python\'s.',
    design='4 (C07), 6 (D7, D8, D21)',
    technique='Coq invariant proof that every event is emitted by a safe node + flag-arithmetic monotonicity lemmas; exhaustive T2 correspondence of the safety arithmetic; sampled merge and eval correspondence with safe=False sources; provenance/taint oracle with unique markers and per-node recording targets for replays')

CHECKS['C13'] = dict(
    text='Machine-checked: C13_list_positions (list/scalar arguments are positions 0..n-1), C13_keywords, C13_gap (an argument after a gap is bound by the NAME of the positional '
         'parameter at that index), C13_beyond (an index beyond the positional parameters is an error - true only after repair 78e347b), C13_positions_reach_parameters (against a '
         'specification of Python\'s binding: the i-th argument reaches the i-th positional parameter, the surplus *args), and the merge table row by row: C13_table_container, '
         'C13_table_string, C13_table_new_target (target replaced, merged arguments exactly the newer ones), C13_table_same_target. The binding specification (Model.Func.pybind) is '
         'itself validated against real Python calls for every signature shape; import_name resolution is outside (tested only).',
    design='4 (C13)',
    technique='Coq proofs about resolve_args and a specification of Python argument binding + per-row lemmas on the function-node merge rule; vm_compute correspondence (merge, eval, binding acceptance); native-call and merge-table oracles for replays')

CHECKS['C11'] = dict(
    text='Machine-checked: C11_shape_plain (for EVERY plain well-formed tree building the config succeeds and the result has the same mappings - same keys, same order -, lists and exact '
         'scalars as the tree, through placeholder check, deep copy and evaluation; proof by induction with a prefix-freshness invariant on the memo), C11_recorded_value_is_result. '
         'In the model an evaluated config has a type without any node constructor, so "no node anywhere" is a typing fact whose content is the correspondence. Partial: the clauses '
         '"evaluating does not modify the kept source" and "mutating the result never changes the source" are about Python aliasing, which a functional model satisfies by construction; '
         'they are decided by the correspondence and by the fingerprint / re-evaluation / scribble / staged-build oracles.',
    design='4 (C11)',
    technique='Coq proof that evaluation of plain trees is the identity on content (memo freshness invariant) + typing of values; sampled vm_compute correspondence; source-fingerprint, re-evaluation, mutation-isolation and staged-build oracles for replays')

CHECKS['C19'] = dict(
    text='Machine-checked: C19_deepcopy_same_explicit (for EVERY tree over all kinds and flag combinations the deep copy has the same kinds, keys, order, scalars, targets, priorities, explicit '
         'delete/allow_new/safe marks, source-level safety, metadata and source files), C19_deepcopy_content, C19_deepcopy_exact (identical whenever the implicit flags are what the ancestors '
         'imply), with a computed witness that merged trees need not be consistent (C19_inconsistent_tree_copy_differs); C19_parsed_document_copy_exact / _interchangeable: EVERY parsed document of mappings, lists and scalars (any tags, metadata, unsafe source) is consistent, so its copy is the very same tree and merges at any position and evaluates exactly like the original. The copy model (re-adoption of every child; pickle = identity) is tied '
         'to copy.deepcopy / pickle by correspondence on all raw flags. Partial: "shares no node", "mutating either never affects the other" are object-identity facts outside a functional model '
         '- decided by the id-disjointness / mutation oracles; "merges and evaluates exactly like the original" by the merge+evaluate oracle.',
    design='4 (C19), 6 (D12)',
    technique='Coq proofs about the re-adoption copy model (Sim / Consistent); vm_compute correspondence deepcopy = recopy, pickle = identity; node-by-node, id-disjointness, merge/evaluate and mutation oracles for replays')

CHECKS['C01'] = dict(
    text='Machine-checked: C01_transparent (for every YAML graph and EVERY placement of merge-control tags / metadata the loaded tree holds exactly the plain data of the graph), '
         'C01_move_tags (two decorations of one graph load to the same content), C01_single_document_build (a single mapping document without !notnew passes through Builder.build unchanged), '
         'C01_evaluates (check + deep copy + evaluation of the loaded document yield exactly that plain data, keys incl. underscore-prefixed ones, order, exact scalars). '
         'The loader model describes the RESULT of the PyYAML construct protocol (top-down adoption); it is tied to the real loader by correspondence on all raw flags of tagged text, '
         'including the nesting shapes of the repaired defects D1/D2/D12. Partial: PyYAML (scanner, parser, composer, resolver), the {{..}} text rewriting and the deferred-fill protocol '
         'itself are modelled by result / trusted and covered by the correspondence and the tagged-vs-erased-twin oracle (incl. a block-style corpus), not verified.',
    design='4 (C01), 6 (D1, D2, D12, D20)',
    technique='Coq proofs by induction on the YAML graph over a functional loader model + the plain-evaluation theorem; vm_compute correspondence loader vs model on tagged text; tagged-vs-erased twin oracle through PyYAML for replays')

CHECKS['C06'] = dict(
    text='Machine-checked: C06_splice_is_concatenation (for EVERY way of splitting a document sequence into single documents and top-level include groups the build equals the build of the '
         'concatenation - n sources, one multi-document source, one !include [f1..fn] and n top-level includes are instances), C06_nested_include (key: !include [..] rebuilds the parent with '
         'exactly the merged content of the files adopted under key, failing iff the merge fails; C06_nested_include_same_data), C06_no_stream_is_identity (without includes the stream machinery '
         'is Builder.flatten), and for ANY file system C06_lookup_order / C06_missing_files_named / C06_found_files_in_order (including directory first, then cwd; failure iff a name is found '
         'nowhere, naming exactly those). The stream model is tied to Builder.preprocess/flatten by correspondence on real temp-directory includes, the lookup model exhaustively over all '
         'placements of <= 3/4 names. C06_path_spelling_irrelevant / C06_path_parent: for EVERY spelling of the source file name, working directory, n and components a !path:parent(n) node denotes "n+1 levels '
         'above its file, then the components" - the same location for two spellings of the same file (model of the path arithmetic tied to pathlib / os.path by correspondence). '
         'Partial: file reading / PyYAML parsing / os.path itself are outside the model; symbolic links are not modelled; "records the file it came from" is decided by the '
         'implementation oracle.',
    design='4 (C06)',
    technique='Coq proofs about the stream splice/expand model and the lookup function (file system as a section variable); vm_compute correspondence on preprocessed include trees and all lookup '
              'placements; temp-directory layout / lookup / !path oracles for replays')

CHECKS['C18'] = dict(
    text='Machine-checked: C18_content (for EVERY tree of plain kinds with any explicit / inherited flags and any elision-stack state, the document parsed back from a successful dump holds the '
         'same data), C18_roundtrip_partial (for every parsed document on which the elision drops nothing but unset keys the re-parsed document is THE SAME TREE - all raw and inherited flags, '
         'metadata, sources - hence C18_substitute_partial: interchangeable at any position of any merge sequence, and C18_dump_fixpoint_partial), and C18_elision_refuted: the full statement is '
         'false of the faithful model (witness {a: [!merge {}]}, known finding D13a). The dump model (every emitted / elided mark, the lone-tag rule, the stack discipline) and the loader model '
         'on dumped text are tied to the code by correspondence. Partial: dynamic node kinds, scalar text emission / quoting and "evaluates the same" are decided by the implementation oracle '
         '(merge histories over the full vocabulary, the exhaustive two-level mark x mark nesting product, strings that need quoting), not by theorems.',
    design='4 (C18), 6 (D13)',
    technique='Coq proofs about the dump (elision) model composed with the loader model; vm_compute correspondence dump_doc = emitted tagged graph and load_doc = parse on dumped text; '
              'substitute-in-merge-sequence / metadata / evaluate / second-dump oracles for replays')

CHECKS['C20'] = dict(
    text='Machine-checked: C20_noninterference (for EVERY number of threads, every list of slot actions per thread and EVERY interleaving, what a thread observes - the file and source '
         'safety each node records, the marker api_entry sees - equals what it observes running alone), C20_independent_of_others (it does not depend on which other threads exist or '
         'whether they fail), C20_no_unlisted_shared_state, and C20_shared_slot_refuted (the same machine with one slot shared has a failing interleaving - the counter-example that guides '
         'the search). The theorems rest on facts re-read from the code on every run (the three slots are threading.local; an ast scan finds no other module- or class-level write in the '
         'anchored files). The slot machine is tied to the code by programs traced from real builds and by driving model and real code with the same slot-granular interleavings. '
         'Partial: CPython\'s threading.local and the GIL, races on state the scan does not see (lazy class caches, sys.modules), and object-level races inside one builder are runtime '
         'behaviour outside the model; they are explored by the deterministic line-granularity scheduler on the real code (<= 2 / <= 3 pre-emptions), not proved.',
    design='4 (C20)',
    technique='Coq proof of non-interference for the slot machine over all interleavings (induction on the schedule); facts from isinstance / ast scan; vm_compute correspondence on traced slot '
              'programs under identical interleavings; deterministic settrace scheduler on the real code, guided by the model counter-example, for replays')

CHECKS['C12'] = dict(
    text='Machine-checked, for what is logic in !eval: C12_order (for ANY symbols, definitions, config entries and builtins a name resolves to the code\'s own definition, then the context '
         'symbol, then the top-level config entry, then the builtin), C12_split_spec (every code text without ";": all but the last line executed, the last evaluated) with C12_split_refuted '
         '(known finding D11c), C12_history_single_line / C12_history_first_use (single-line programs, f-strings and first evaluations see only the current build, for every cache state) '
         'with C12_history_refuted (known finding D11b). The models are tied to GlobalsWrapper (exhaustive), to the split statements taken from the source by an ast translator, and to real '
         'build sequences run in one process. Partial by nature: CPython\'s compiler / interpreter and the bytecode rewriter cannot be modelled here; "computes what Python computes" for every '
         'program of the grammar, f-string equality, EvalError-with-cause and no-crash are decided by the differential oracle (each program in a subprocess against native exec / eval), '
         'with the rewriter\'s remaining limits as known finding D11a (precise signature computed from the natively compiled code). The rewriter itself is modelled as a function on code '
         'units (Model/Patch.v, tied byte for byte to _patch_access_to_globals on natively compiled code objects) with C12_jumps_retargeted: for EVERY code object on which the patch '
         'succeeds every relative jump keeps its opcode, sits at the image of its position and goes to the image of its old target, and C12_patch_keeps_opcodes.',
    design='4 (C12), 6 (D11)',
    technique='Coq proofs about name resolution, the code split and the module-cache history machine; vm_compute correspondence (exhaustive lookup patterns, ast-extracted split, traced build '
              'histories); differential execution of grammar-generated programs and f-strings against native exec/eval in crash-isolated subprocesses for replays')

NOT_APPLICABLE = {}


def main():
    props = [json.loads(l) for l in open(os.path.join(HERE, 'properties.jsonl'))]
    checks = []
    na = []
    for p in props:
        pid = p['id']
        if pid in CHECKS:
            c = CHECKS[pid]
            checks.append(dict(
                property_id=pid,
                quick_cmd=f'./check {pid} --tier quick',
                thorough_cmd=f'./check {pid} --tier thorough',
                evidence_file=f'/verif/evidence/{pid}.json',
                replay_cmd_template='./check ' + pid + ' --replay {path}',
                engine='coq-model',
                level_claimed=dict(category='proof', text=c['text'], design_ref='DESIGN.md section ' + c['design']),
                level_note=c.get('note', '') + COMMON_NOTE,
                technique=c['technique']))
        else:
            na.append(dict(property_id=pid, reason=NOT_APPLICABLE.get(pid, 'not yet claimed: the check for this property is still being built (see DESIGN.md section 9); no verdict is given')))
    m = dict(
        version=1,
        setup_cmd='cd /verif && ./setup.sh',
        hooks=dict(guard='AWESOMEYAML_VERIF', enable='no source hooks are needed: the checks observe through the public API (the variable is exported by ./check but nothing in /repo reads it)',
                   baseline_off_cmd='cd /repo && /venv/bin/python -m pytest -ra -q -p no:cacheprovider --timeout=900 --continue-on-collection-errors',
                   source_commits=[], add_only=True),
        engines=[dict(name='coq-model', path='/verif/coq', serves_properties=sorted(CHECKS),
                      kind_free_text='Coq 8.16.1 development: Model/ (executable Gallina model), Spec/, Proofs/, Properties/ (theorems), Gen/Facts.v regenerated from /repo; vlib/ Python harness for correspondence, oracles, evidence')],
        checks=checks,
        notes='Every check: (1) regenerates Gen/Facts.v from /repo and re-runs the full .vo build (make -k); (2) runs the correspondence of the model components the property depends on; '
              '(3) runs a Python oracle that tests the property statement on the implementation to obtain replays. See DESIGN.md.',
        not_applicable=na)
    with open(os.path.join(HERE, 'MANIFEST.json'), 'w') as f:
        json.dump(m, f, indent=1)
    print('MANIFEST.json:', len(checks), 'checks,', len(na), 'not claimed')


if __name__ == '__main__':
    main()
