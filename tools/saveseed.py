#!/usr/bin/env python3
"""saveseed.py <worktree> <n> <name> <property> <needs...> : copy patchN.diff/demoN.py into /verif/seeded/<name>/ after re-verifying it in the worktree"""
import sys, os, subprocess, json, shutil
wt, n, name, prop = sys.argv[1:5]
needs = ' '.join(sys.argv[5:])
d = f'/verif/seeded/{name}'
os.makedirs(d, exist_ok=True)
env = {**os.environ, 'PYTHONPATH': wt, 'PYTHONHASHSEED': '0'}
def run(cmd, **kw):
    return subprocess.run(cmd, cwd=wt, env=env, capture_output=True, text=True, **kw)
run(['git', 'checkout', '--', 'awesomeyaml'])
demo = f'demo{n}.py'
clean = run(['/venv/bin/python', demo], timeout=600)
ap = run(['git', 'apply', f'patch{n}.diff'])
assert ap.returncode == 0, ap.stderr
pat = run(['/venv/bin/python', demo], timeout=600)
reg = subprocess.run(['/venv/bin/python', '/verif/tools/regress.py', wt], capture_output=True, text=True)
run(['git', 'checkout', '--', 'awesomeyaml'])
pinned_ok = 'missing: []' in reg.stdout
ok = clean.returncode == 0 and pat.returncode != 0 and pinned_ok
print(name, 'clean exit', clean.returncode, 'patched exit', pat.returncode, 'regress', reg.returncode, reg.stdout.strip().splitlines()[-2:] )
if not ok:
    sys.exit('NOT CONFIRMED')
shutil.copy(os.path.join(wt, f'patch{n}.diff'), os.path.join(d, 'patch.diff'))
shutil.copy(os.path.join(wt, demo), os.path.join(d, 'demo.py'))
for extra in os.listdir(wt):
    if extra.endswith('.py') and extra not in ('setup.py',) and not extra.startswith('demo') and os.path.isfile(os.path.join(wt, extra)) and extra not in os.listdir('/repo'):
        shutil.copy(os.path.join(wt, extra), os.path.join(d, extra))
json.dump(dict(property=prop, needs_to_manifest=needs, confirmed=dict(demo_on_clean_exit=clean.returncode, demo_with_patch_exit=pat.returncode,
          demo_with_patch_tail=(pat.stdout + pat.stderr)[-400:], pinned_suite='100/100 stable tests pass', isolated_fixtures=reg.stdout.strip().splitlines()[-1]), checks=[prop]),
          open(os.path.join(d, 'meta.json'), 'w'), indent=1)
print('saved', d)
