#!/usr/bin/env python3
"""Blind-spot search: simple syntactic mutants of awesomeyaml/ that still pass the pinned test-suite are run against the quick checks of the
properties anchored in the mutated file (private worktree / build / evidence directories per worker, /repo is only read).  A mutant that
survives every relevant check is written to the report for triage: it is either equivalent / outside every property, or a gap.
usage: mutsweep.py [-j N] [-n COUNT] [-s SEED] [--files a.py,b.py]      -> /tmp/mutsweep/report.jsonl, summary on stdout
This is a development aid, not a registered check."""
import sys, os, re, json, random, subprocess, shutil, threading, queue, ast, time

VERIF = os.path.dirname(os.path.dirname(os.path.abspath(__file__)))   # the tree this script belongs to (a snapshot under vp run works on itself)
args = sys.argv[1:]
N, COUNT, SEED, FILES = 8, 120, 1, None
while args:
    a = args.pop(0)
    if a == '-j': N = int(args.pop(0))
    elif a == '-n': COUNT = int(args.pop(0))
    elif a == '-s': SEED = int(args.pop(0))
    elif a == '--files': FILES = args.pop(0).split(',')
OUT = '/tmp/mutsweep'
os.makedirs(OUT, exist_ok=True)

anch = {}
for l in open(f'{VERIF}/properties.jsonl'):
    p = json.loads(l)
    for f in p['anchors']['files']:
        anch.setdefault(f, []).append(p['id'])

OPS = [(r' == ', ' != '), (r' != ', ' == '), (r' is not None', ' is None'), (r' is None', ' is not None'), (r' and ', ' or '), (r' or ', ' and '),
       (r'\bTrue\b', 'False'), (r'\bFalse\b', 'True'), (r' <= ', ' < '), (r' >= ', ' > '), (r' < ', ' <= '), (r' > ', ' >= '),
       (r'\bif not ', 'if '), (r' \+ 1\b', ' + 0'), (r' - 1\b', ' - 0'), (r'\[0\]', '[-1]'), (r'\bis not\b', 'is'), (r'\bnot in\b', 'in')]


def doc_lines(src):
    """line numbers covered by docstrings / bare string statements"""
    skip = set()
    try:
        tree = ast.parse(src)
    except SyntaxError:
        return skip
    for n in ast.walk(tree):
        if isinstance(n, ast.Expr) and isinstance(n.value, ast.Constant) and isinstance(n.value.value, str):
            skip.update(range(n.lineno, n.end_lineno + 1))
        if isinstance(n, (ast.Raise, ast.Assert)):
            skip.update(range(n.lineno, n.end_lineno + 1))
    return skip


def mutants_of(rel):
    raw = open(f'/repo/{rel}', 'rb').read()
    crlf = b'\r\n' in raw
    text = raw.decode().replace('\r\n', '\n')
    lines = text.split('\n')
    skip = doc_lines(text)
    out = []
    for i, ln in enumerate(lines, 1):
        s = ln.strip()
        if i in skip or not s or s.startswith(('#', '@', 'def ', 'class ', 'import ', 'from ', "'''", '"""')):
            continue
        code = ln.split('#')[0] if "'" not in ln and '"' not in ln else ln
        for pat, rep in OPS:
            m = re.search(pat, code)
            if m:
                new = ln[:m.start()] + rep + ln[m.end():]
                out.append((rel, i, ln.strip(), new.strip(), new, crlf))
        # statement deletion: a simple call / assignment line
        if re.match(r'^[\w\.\[\]\(\)\'", =_+-]+$', s) and not s.endswith((':', ',', '(', '[', '{')) and not s.startswith(('return', 'yield', 'pass', 'else', 'try', 'finally', 'continue', 'break')) \
                and s.count('(') == s.count(')'):
            ind = ln[:len(ln) - len(ln.lstrip())]
            out.append((rel, i, ln.strip(), 'pass', ind + 'pass', crlf))
    return out


def apply(wt, m):
    rel, i, _, _, new, crlf = m
    p = f'{wt}/{rel}'
    raw = open(p, 'rb').read().decode()
    nl = '\r\n' if crlf else '\n'
    lines = raw.split(nl)
    lines[i - 1] = new
    open(p, 'wb').write(nl.join(lines).encode())


def sh(cmd, **kw):
    return subprocess.run(cmd, shell=isinstance(cmd, str), capture_output=True, text=True, **kw)


rng = random.Random(SEED)
files = FILES or sorted(anch)
pool = []
for f in files:
    ms = mutants_of(f)
    rng.shuffle(ms)
    pool.append(ms)
# round-robin over the files, weighted by the number of anchored properties
chosen = []
weights = [max(1, len(anch.get(f, []))) for f in files]
while len(chosen) < COUNT and any(pool):
    for f, ms, w in zip(files, pool, weights):
        for _ in range(max(1, w // 3)):
            if ms and len(chosen) < COUNT:
                chosen.append(ms.pop())
print(f'{len(chosen)} mutants chosen from {sum(len(p) for p in pool) + len(chosen)} candidates in {len(files)} files', flush=True)

q = queue.Queue()
for m in chosen:
    q.put(m)
lock = threading.Lock()
report = open(f'{OUT}/report.jsonl', 'a')
stats = dict(total=0, nocompile=0, tests=0, killed=0, survived=0)


def worker(i):
    wt, coq, ev, rp = f'/tmp/ms_wt{i}', f'/tmp/ms_coq{i}', f'/tmp/ms_ev{i}', f'/tmp/ms_rp{i}'
    sh(['git', '-C', '/repo', 'worktree', 'remove', '--force', wt])
    for d in (coq, ev, rp):
        shutil.rmtree(d, ignore_errors=True)
    r = sh(['git', '-C', '/repo', 'worktree', 'add', '--detach', wt, 'HEAD', '-q'])
    assert r.returncode == 0, r.stderr
    shutil.copytree(f'{VERIF}/coq', coq, symlinks=True)
    env = {**os.environ, 'AY_REPO': wt, 'VERIF_COQ_DIR': coq, 'VERIF_EVIDENCE_DIR': ev, 'VERIF_REPLAY_DIR': rp, 'VERIF_SEED': '12345'}
    try:
        while True:
            try:
                m = q.get_nowait()
            except queue.Empty:
                return
            rel, ln, old, new = m[:4]
            apply(wt, m)
            rec = dict(file=rel, line=ln, old=old, new=new)
            c = sh(['/venv/bin/python', '-m', 'py_compile', f'{wt}/{rel}'])
            if c.returncode != 0:
                rec['outcome'] = 'nocompile'
            else:
                t = sh('/venv/bin/python -m pytest -q -p no:cacheprovider --timeout=120 --continue-on-collection-errors 2>&1 | tail -1', cwd=wt,
                       env={**os.environ, 'PYTHONPATH': wt, 'PYTHONHASHSEED': '0'}, timeout=900)
                if '262 passed' not in t.stdout or 'failed' in t.stdout:
                    rec['outcome'] = 'tests'
                    rec['tests'] = t.stdout.strip()[-120:]
                else:
                    rec['outcome'] = 'survived'
                    rec['checks'] = []
                    for pid in anch.get(rel, []):
                        t0 = time.time()
                        try:
                            p = sh([f'{VERIF}/check', pid, '--tier', 'quick'], env=env, timeout=1500)
                            viol = [l for l in p.stdout.splitlines() if l.startswith('VIOLATION')]
                            hit = p.returncode == 1 and bool(viol)
                        except subprocess.TimeoutExpired:
                            viol, hit = ['timeout'], True
                        rec['checks'].append(dict(pid=pid, detected=hit, s=round(time.time() - t0), first=(viol[0][:160].replace(rp, 'replays') if viol else '')))
                        if hit:
                            rec['outcome'] = 'killed'
                            rec['by'] = pid
                            rec['concrete'] = any('no-failing-input-found' not in v for v in viol)
                            break
                    shutil.rmtree(rp, ignore_errors=True)
            sh(['git', '-C', wt, 'checkout', '--', '.'])
            with lock:
                stats['total'] += 1
                stats[rec['outcome']] += 1
                report.write(json.dumps(rec) + '\n')
                report.flush()
                print(f"[{stats['total']}/{len(chosen)}] {rec['outcome']:9s} {rel}:{ln}  {old[:60]!r} -> {new[:60]!r}" + (f"  by {rec.get('by')}" if rec['outcome'] == 'killed' else ''), flush=True)
    finally:
        sh(['git', '-C', '/repo', 'worktree', 'remove', '--force', wt])
        for d in (coq, ev, rp):
            shutil.rmtree(d, ignore_errors=True)


ths = [threading.Thread(target=worker, args=(i,)) for i in range(N)]
for t in ths:
    t.start()
for t in ths:
    t.join()
print(json.dumps(stats))
