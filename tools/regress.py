#!/usr/bin/env python3
"""Regression net for fix:/hook commits in /repo: pinned 101 tests + isolated fixtures vs saved baseline.
usage: regress.py [repo_dir]"""
import sys, os, json, subprocess, tempfile, xml.etree.ElementTree as ET
repo = sys.argv[1] if len(sys.argv) > 1 else '/repo'
here = os.path.dirname(os.path.abspath(__file__))
base = json.load(open('/root/.vp/BASELINE.json'))
stable = set(base['stable_pass']) - {'::'}
with tempfile.TemporaryDirectory() as td:
    x = os.path.join(td, 'j.xml')
    subprocess.run(['/venv/bin/python', '-m', 'pytest', '-ra', '-q', '-p', 'no:cacheprovider', '--timeout=900',
                    '--continue-on-collection-errors', '--junitxml=' + x], cwd=repo, capture_output=True,
                   env={**os.environ, 'PYTHONPATH': repo})
    passed = set()
    for tc in ET.parse(x).getroot().iter('testcase'):
        if not list(tc):
            passed.add(f"{tc.get('classname')}::{tc.get('name')}")
    missing = sorted(stable - passed)
    print(f'pinned: {len(stable & passed)}/{len(stable)} stable tests pass; missing: {missing}')
    out = os.path.join(td, 'f.json')
    subprocess.run(['/venv/bin/python', os.path.join(here, 'runfix.py'), repo, out], capture_output=True)
    cur = json.load(open(out)); old = json.load(open(os.path.join(here, 'fixtures_baseline.json')))
    worse = {k: (old[k], cur.get(k)) for k in old if old[k] == 'PASS' and cur.get(k) != 'PASS'}
    better = {k: (old[k], cur.get(k)) for k in old if old[k] != 'PASS' and cur.get(k) == 'PASS'}
    print(f'fixtures: {sum(v=="PASS" for v in cur.values())}/{len(cur)} pass; regressed: {worse}; newly passing: {sorted(better)}')
    sys.exit(1 if missing or worse else 0)
