#!/usr/bin/env python3
"""Parallel seed pass: every worker owns a scratch git worktree of /repo, a copy of /verif/coq (build directory) and its own evidence /
replay directories, so that seeded changes never touch /repo, /verif/coq or /verif/evidence.  For each seeded change: apply the patch in
the worker's worktree, run the quick check(s) named in its meta.json against it (AY_REPO=<worktree>), undo.
usage: seedpar.py [-j N] [seed names...]     -> one line per (seed, check) in seeded/RESULTS.txt (sorted), summary on stdout."""
import sys, os, json, subprocess, shutil, threading, queue, time

VERIF = os.path.dirname(os.path.dirname(os.path.abspath(__file__)))   # the tree this script belongs to (a snapshot under vp run works on itself)
args = sys.argv[1:]
PID = os.getpid()   # scratch names are private to this run: two passes may run side by side
N = 4
if args[:1] == ['-j']:
    N = int(args[1]); args = args[2:]
seeds = args or sorted(s for s in os.listdir(f'{VERIF}/seeded') if os.path.isdir(f'{VERIF}/seeded/{s}'))
q = queue.Queue()
for s in seeds:
    q.put(s)
results = {}
lock = threading.Lock()


def sh(cmd, **kw):
    return subprocess.run(cmd, shell=isinstance(cmd, str), capture_output=True, text=True, **kw)


def prepare(i):
    wt, coq, ev, rp = f'/tmp/sp_wt{PID}_{i}', f'/tmp/sp_coq{PID}_{i}', f'/tmp/sp_ev{PID}_{i}', f'/tmp/sp_rp{PID}_{i}'
    sh(['git', '-C', '/repo', 'worktree', 'remove', '--force', wt])
    for d in (coq, ev, rp):
        shutil.rmtree(d, ignore_errors=True)
    r = sh(['git', '-C', '/repo', 'worktree', 'add', '--detach', wt, 'HEAD', '-q'])
    assert r.returncode == 0, r.stderr
    shutil.copytree(f'{VERIF}/coq', coq, symlinks=True)


def worker(i):
    wt, coq, ev, rp = f'/tmp/sp_wt{PID}_{i}', f'/tmp/sp_coq{PID}_{i}', f'/tmp/sp_ev{PID}_{i}', f'/tmp/sp_rp{PID}_{i}'
    env = {**os.environ, 'AY_REPO': wt, 'VERIF_COQ_DIR': coq, 'VERIF_EVIDENCE_DIR': ev, 'VERIF_REPLAY_DIR': rp, 'VERIF_SEED': os.environ.get('VERIF_SEED', '12345')}
    try:
        while True:
            try:
                s = q.get_nowait()
            except queue.Empty:
                return
            d = f'{VERIF}/seeded/{s}'
            meta = json.load(open(f'{d}/meta.json'))
            ap = sh(['git', '-C', wt, 'apply', f'{d}/patch.diff'])
            lines = []
            if ap.returncode != 0:
                lines.append(f'{s}: PATCH DOES NOT APPLY')
            else:
                for c in meta.get('checks', [meta['property']]):
                    t0 = time.time()
                    p = sh([f'{VERIF}/check', c, '--tier', 'quick'], env=env)
                    viol = [l for l in p.stdout.splitlines() if l.startswith('VIOLATION')]
                    verdict = 'DETECTED' if p.returncode == 1 and viol else 'MISSED'
                    lines.append(f"{s} vs {c}: {verdict} exit={p.returncode} {[v.replace(rp, 'replays') for v in viol[:2]]} {(p.stdout.splitlines() or [''])[-1]}"[:300])
                sh(['git', '-C', wt, 'checkout', '--', '.'])
                shutil.rmtree(rp, ignore_errors=True)
            with lock:
                results[s] = lines
                print(f'[{len(results)}/{len(seeds)}] ' + ' | '.join(l[:150] for l in lines), flush=True)
    finally:
        sh(['git', '-C', '/repo', 'worktree', 'remove', '--force', wt])
        for d in (coq, ev, rp):
            shutil.rmtree(d, ignore_errors=True)


for i in range(N):
    prepare(i)
ths = [threading.Thread(target=worker, args=(i,)) for i in range(N)]
for t in ths:
    t.start()
for t in ths:
    t.join()
if not args:
    with open(f'{VERIF}/seeded/RESULTS.txt', 'w') as f:
        for s in seeds:
            for l in results.get(s, [f'{s}: NOT RUN']):
                f.write(l + '\n')
flat = [l for s in seeds for l in results.get(s, [])]
print(f'{len(seeds)} seeds: {sum("DETECTED" in l for l in flat)} detected, {sum("MISSED" in l for l in flat)} missed, '
      f'{sum("no-failing-input-found" in l and l.count("VIOLATION") == l.count("no-failing-input-found") for l in flat)} obligation-only')
