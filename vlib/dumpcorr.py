"""T3 for the dumper: awesomeyaml.yaml.dump on a parsed tree vs Model.Dump.dump_doc — compared as the tagged graph PyYAML
composes from the emitted text (so quoting / emitter details are observed through what a YAML reader sees)."""
import pickle
import yaml as pyyaml
from . import ser, gen, mergecorr

HEADER = 'From AY Require Import Model.Dump.\nOpen Scope Z_scope.\n'
CHECK = ('fun c : node * res ynode => match dump_doc (fst c), snd c with Ok a, Ok b => ynode_eqb a b '
         '| Err _ _, Err _ _ => true | _, _ => false end')

SIMPLE = {'!force': ('prio', 1), '!weak': ('prio', -1), '!del': ('del', True), '!merge': ('del', False), '!new': ('new', True),
          '!notnew': ('new', False), '!unsafe': ('safe', False), '!safe': ('safe', True)}


class NotPlainKinds(Exception):
    pass


def tagkw_of(tag, intern):
    kw = dict(prio=None, **{'del': None}, new=None, safe=None)
    meta = {}
    if tag in SIMPLE:
        k, v = SIMPLE[tag]
        kw[k] = v
    elif tag.startswith('!metadata:') or tag.startswith('!null:'):
        d = pickle.loads(bytes.fromhex(tag.split(':', 1)[1]))
        for src, dst in (('priority', 'prio'), ('delete', 'del'), ('allow_new', 'new'), ('safe', 'safe')):
            if src in d:
                kw[dst] = d.pop(src)
        meta = d
    elif tag == '!null' or tag.startswith('tag:yaml.org,2002:'):
        pass
    else:
        raise NotPlainKinds(tag)
    return f"(mkT {ser.oz(kw['prio'])} {ser.ob(kw['del'])} {ser.ob(kw['new'])} {ser.ob(kw['safe'])} {ser.meta_term(meta, intern)})"


_ld = pyyaml.SafeLoader('')


def scalar_of(node):
    """the value a YAML reader gives the scalar: implicit resolution for plain style, str when quoted"""
    if node.tag.startswith('!null'):
        return None
    tag = node.tag
    if not tag.startswith('tag:yaml.org,2002:'):
        tag = _ld.resolve(pyyaml.ScalarNode, node.value, (node.style is None, False))
    return _ld.construct_object(pyyaml.ScalarNode(tag, node.value))


def ynode_of(node, intern):
    t = tagkw_of(node.tag, intern)
    if isinstance(node, pyyaml.ScalarNode):
        return f'(YS {t} ({ser.scalar_term(scalar_of(node), intern)}))'
    if isinstance(node, pyyaml.SequenceNode):
        return f'(YQ {t} {ser.coq_list(ynode_of(c, intern) for c in node.value)})'
    items = []
    for k, v in node.value:
        if not isinstance(k, pyyaml.ScalarNode):
            raise NotPlainKinds('complex key')
        items.append(f'({ser.key_term(scalar_of(k), intern)}, {ynode_of(v, intern)})')
    return f'(YM {t} {ser.coq_list(items)})'


def run_case(text, safe=True):
    """parse text, dump the tree with the library, read the emitted text back as a tagged graph"""
    from awesomeyaml import yaml as ayaml
    intern = ser.Interner()
    try:
        b = mergecorr.parse_stages([text], [safe])
        tree = b.stages[0]
        term = ser.node_term(tree, intern)
    except Exception as e:
        return dict(ok=False, why=type(e).__name__)
    try:
        out = ayaml.dump(tree)
    except Exception as e:
        return dict(ok=True, text=text, dumped=None, term=f'({term}, @Err ynode EOther [])', error=type(e).__name__ + ': ' + str(e)[:100])
    try:
        y = ynode_of(pyyaml.compose(out, Loader=pyyaml.SafeLoader), intern)
    except NotPlainKinds as e:
        return dict(ok=False, why='kind ' + str(e))
    return dict(ok=True, text=text, dumped=out, term=f'({term}, Ok {y})')
