"""Entry point: ./check Cxx [--tier quick|thorough] [--replay file]"""
import sys, os, argparse, importlib, json, random, traceback
from . import common


def main():
    ap = argparse.ArgumentParser()
    ap.add_argument('pid')
    ap.add_argument('--tier', default=os.environ.get('VERIF_TIER', 'quick'))
    ap.add_argument('--replay', default=None)
    a = ap.parse_args()
    tier = a.tier if a.tier in ('quick', 'thorough') else 'quick'
    mod = importlib.import_module(f'vlib.props.{a.pid}')
    if a.replay:
        sys.exit(mod.replay(json.load(open(a.replay))))
    rep = common.Report(a.pid, tier)
    try:
        os.remove(os.path.join(common.EVIDENCE, a.pid + '.json'))
    except FileNotFoundError:
        pass
    rng = random.Random(common.seed() * 1000003 + sum(map(ord, a.pid)))
    try:
        mod.run(rep, tier, rng)
    except Exception as e:
        rep.oblige('check machinery ran to completion', False, traceback.format_exc()[-2000:])
        traceback.print_exc()
    # decide
    broken = [(n, d) for n, ok, d in rep.obligations if not ok]
    if broken and not [v for v in rep.violations if not v[1]]:
        rep.violation('proof obligation / correspondence no longer checks',
                      dict(broken=[dict(obligation=n, detail=d) for n, d in broken]), no_input=True)
    sys.exit(rep.finish())


if __name__ == '__main__':
    main()
