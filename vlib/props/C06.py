"""C06 — streams are flattened in order: sources, multi-document files and !include agree; lookup; !path reference points."""
import os, shutil, tempfile, itertools, pathlib
from .. import common, gen, oracles, ser, mergecorr
from . import base

THEOREMS = ['C06_splice_is_concatenation', 'C06_nested_include', 'C06_nested_include_same_data', 'C06_no_stream_is_identity', 'C06_lookup_order',
            'C06_missing_files_named', 'C06_found_files_in_order', 'C06_path_spelling_irrelevant', 'C06_path_parent']
DOCPROF = gen.Profile(p_tag=0.25, tags=['!force', '!weak', '!del', '!merge'], p_seq=0.35, p_map=0.35, max_depth=3)


class Sandbox:
    """a scratch directory tree outside /repo and /verif, removed on exit; cwd is switched into it"""
    def __enter__(self):
        self.dir = tempfile.mkdtemp(prefix='c06_')
        self.old = os.getcwd()
        os.chdir(self.dir)
        return self

    def __exit__(self, *a):
        os.chdir(self.old)
        shutil.rmtree(self.dir, ignore_errors=True)

    def write(self, rel, text):
        p = os.path.join(self.dir, rel)
        os.makedirs(os.path.dirname(p), exist_ok=True)
        with open(p, 'w') as f:
            f.write(text)
        return p


def build(sources, raw=False):
    """returns ('ok', root) or (error class name, message)"""
    from awesomeyaml.builder import Builder
    from awesomeyaml import errors
    try:
        b = Builder()
        for s in sources:
            b.add_source(s, raw_yaml=raw)
        return 'ok', b.build()
    except errors.Error as e:
        return type(e).__name__, str(e)
    except FileNotFoundError as e:
        return 'FileNotFoundError', str(e)


def plain_of(res):
    return (res[0], base.typed(base.to_plain(res[1]))) if res[0] == 'ok' else (res[0], None)


def sources_of(root):
    from .C09 import tree_paths
    return {p: n.ayns.source_file for p, n in tree_paths(root).items()}


def judge_layouts(case):
    texts = case['texts']
    with Sandbox() as sb:
        files = [sb.write(f'd/f{i}.yaml', t) for i, t in enumerate(texts)]
        names = [f'f{i}.yaml' for i in range(len(texts))]
        L1 = build(files)
        multi = sb.write('d/multi.yaml', '\n---\n'.join(texts) + '\n')
        L2 = build([multi])
        inc = sb.write('d/inc_list.yaml', '!include [' + ', '.join(names) + ']\n')
        L3 = build([inc])
        incs = sb.write('d/inc_each.yaml', '\n---\n'.join(f'!include {n}' for n in names) + '\n')
        L4 = build([incs])
        per = [sb.write(f'd/one{i}.yaml', f'!include {n}\n') for i, n in enumerate(names)]
        L5 = build(per)
        # two levels of streams: a file whose documents are top-level includes, itself included (top-level / by a multi-document file)
        L6 = build([sb.write('d/outer.yaml', '!include inc_each.yaml\n')])
        L7 = build([sb.write('d/outer2.yaml', '!include [' + ', '.join(f'one{i}.yaml' for i in range(len(names))) + ']\n')])
        ref = plain_of(L1)
        for name, L in (('one multi-document source', L2), ("a top-level '!include [f1..fn]'", L3), ('n top-level includes in one file', L4), ('n sources each a top-level include', L5),
                        ('an included file whose documents are top-level includes', L6), ("a top-level '!include [..]' of files that are top-level includes", L7)):
            if plain_of(L) != ref:
                return dict(texts=texts, reason=f'{name} builds a different config than the n separate sources', separate=repr(ref)[:300], other=repr(plain_of(L))[:300])
        if L1[0] == 'ok':
            s1 = sources_of(L1[1])
            for name, L in (("'!include [..]'", L3), ('n includes', L4)):
                s = sources_of(L[1])
                if {p: os.path.basename(v or '') for p, v in s.items()} != {p: os.path.basename(v or '') for p, v in s1.items()}:
                    return dict(texts=texts, reason=f'nodes reached through {name} do not record the file they really came from')
        # nested: key: !include [..] equals the merged content of those files placed under key
        nested = sb.write('d/nested.yaml', 'k: !include [' + ', '.join(names) + ']\nq: 1\n')
        N = build([nested])
        if L1[0] == 'ok':
            # the same through a multi-document file whose documents are top-level includes
            Nm = build([sb.write('d/nested_m.yaml', 'k: !include inc_each.yaml\nq: 1\n')])
            if Nm[0] != 'ok' or base.typed(base.to_plain(Nm[1])) != base.typed({'k': base.to_plain(L1[1]), 'q': 1}):
                return dict(texts=texts, reason="'key: !include f' where f is a multi-document file of top-level includes is not the merged content of the files placed under key",
                            got=(repr(base.to_plain(Nm[1]))[:300] if Nm[0] == 'ok' else repr(Nm[:2])[:300]))
            if N[0] != 'ok':
                return dict(texts=texts, reason="'key: !include [..]' failed although the files merge", error=N[0], message=N[1][:200])
            got = base.to_plain(N[1])
            exp = {'k': base.to_plain(L1[1]), 'q': 1}
            if base.typed(got) != base.typed(exp):
                return dict(texts=texts, reason="'key: !include [..]' is not the merged content of the files placed under key", expected=repr(exp)[:300], got=repr(got)[:300])
            # ... also where the key inherits an implicit delete flag: inside a !del mapping, as an element of a list
            merged = base.to_plain(L1[1])
            for what, text, exp2 in (("inside a '!del' mapping", 'k: !del {s: !include [' + ', '.join(names) + ']}\nq: 1\n', {'k': {'s': merged}, 'q': 1}),
                                     ('as an element of a list', 'k: [!include [' + ', '.join(names) + '], 5]\nq: 1\n', {'k': [merged, 5], 'q': 1}),
                                     ("two levels below a '!del' mapping", 'k: !del {s: {t: !include [' + ', '.join(names) + ']}}\n', {'k': {'s': {'t': merged}}})):
                N2 = build([sb.write('d/nested2.yaml', text)])
                if N2[0] != 'ok':
                    return dict(texts=texts, reason=f"'key: !include [..]' {what} failed although the files merge", error=N2[0], message=N2[1][:200])
                got2 = base.to_plain(N2[1])
                if base.typed(got2) != base.typed(exp2):
                    return dict(texts=texts, reason=f"'key: !include [..]' {what} is not the merged content of the files placed there", expected=repr(exp2)[:300], got=repr(got2)[:300])
            # ... and when an EARLIER document already holds content at the key: the included files are built on their own first
            # (list operators / !notnew inside them act on the included sequence, not on the outer config), then placed
            import yaml as _yaml

            def older(v):
                if isinstance(v, dict):
                    return {k: older(x) for k, x in v.items()}
                if isinstance(v, list):
                    return ['old1', 'old2']
                return 'old'
            basef = sb.write('d/outer.yaml', _yaml.safe_dump({'k': older(merged), 'q': 0}, default_flow_style=True, sort_keys=False))
            inline = sb.write('d/inline.yaml', _yaml.safe_dump({'k': merged}, default_flow_style=True, sort_keys=False))
            R = build([basef, inline])
            # (the reference places the PLAIN merged data: only meaningful when the files carry no priority / delete / new marks)
            tagfree = all('!' not in t.replace('!append', '').replace('!extend', '') for t in texts)
            for nm_list in (() if not tagfree else (([names[0]], names) if len(names) > 1 else ([names[0]],))):
                if nm_list is names or len(texts) == 1:
                    inc2 = sb.write('d/inc2.yaml', 'k: !include [' + ', '.join(nm_list) + ']\n')
                    N3 = build([basef, inc2])
                    if plain_of(N3) != plain_of(R):
                        return dict(texts=texts, reason="'key: !include [..]' onto an existing key is not the merged content of the files merged at that key",
                                    expected=repr(plain_of(R))[:300], got=repr(plain_of(N3))[:300])
        elif N[0] == 'ok':
            return dict(texts=texts, reason="'key: !include [..]' succeeded although merging the files fails", separate=L1[0])
    return None


def judge_lookup(case):
    """names resolve relative to the including file first, then the working directory; a file found nowhere fails the build naming it"""
    present = case['present']          # per name: 'inc' / 'cwd' / 'both' / 'none'
    nested = case['nested']
    with Sandbox() as sb:
        os.makedirs(os.path.join(sb.dir, 'work'))
        names = [f'x{i}.yaml' for i in range(len(present))]
        for n, where in zip(names, present):
            if where in ('inc', 'both'):
                sb.write(f'conf/{n}', f'{{v_{n[:-5]}: from_including_dir}}\n')
            if where in ('cwd', 'both'):
                sb.write(f'work/{n}', f'{{v_{n[:-5]}: from_cwd}}\n')
        main = sb.write('conf/main.yaml', ('k: ' if nested else '') + '!include [' + ', '.join(names) + ']\n')
        os.chdir(os.path.join(sb.dir, 'work'))
        res = build([main])
        missing = [n for n, w in zip(names, present) if w == 'none']
        if missing:
            if res[0] != 'PreprocessError':
                return dict(case=case, reason='a file found nowhere must fail the build', missing=missing, got=res[0], result=repr(plain_of(res))[:200])
            not_named = [n for n in missing if n not in res[1]]
            if not_named:
                return dict(case=case, reason='the error must name the missing file', missing=missing, not_named=not_named, message=res[1][:300])
            return None
        if res[0] != 'ok':
            return dict(case=case, reason='every included file exists, yet the build failed', error=res[0], message=res[1][:200])
        exp = {}
        for n, w in zip(names, present):
            exp[f'v_{n[:-5]}'] = 'from_including_dir' if w in ('inc', 'both') else 'from_cwd'
        got = base.to_plain(res[1])
        got = got['k'] if nested else got
        if got != exp:
            return dict(case=case, reason="included names must resolve relative to the including file first, then the working directory", expected=exp, got=got)
    return None


def lookup_outcome(present):
    """what the implementation does for one placement: ('found', [from including dir?]) or ('missing', [indices])"""
    import re
    with Sandbox() as sb:
        os.makedirs(os.path.join(sb.dir, 'work'))
        names = [f'x{i}.yaml' for i in range(len(present))]
        for n, where in zip(names, present):
            if where in ('inc', 'both'):
                sb.write(f'conf/{n}', '{v_%s: inc}\n' % n[:-5])
            if where in ('cwd', 'both'):
                sb.write(f'work/{n}', '{v_%s: cwd}\n' % n[:-5])
        main = sb.write('conf/main.yaml', '!include [' + ', '.join(names) + ']\n')
        os.chdir(os.path.join(sb.dir, 'work'))
        res = build([main])
        if res[0] == 'ok':
            got = base.to_plain(res[1])
            return ('found', [got.get(f'v_x{i}') == 'inc' for i in range(len(names))])
        m = re.search(r"'missing': \[(.*?)\], 'lookup_dirs'", res[1], re.S)
        if res[0] != 'PreprocessError' or not m:
            return (res[0], [])
        return ('missing', [int(i) for i in re.findall(r"\('x(\d+)\.yaml'\)", m.group(1))])


def judge_path(case):
    """a !path node with a file-relative reference point denotes a location relative to the file it was written in, whichever way that file was reached"""
    from awesomeyaml.config import Config
    n = case['n']
    with Sandbox() as sb:
        sb.write('proj/conf/paths.yaml', f'data: !path:parent({n}) [datasets]\nself: !path:file []\n')
        sb.write('proj/main_abs.yaml', 'p: !include ' + os.path.join(sb.dir, 'proj/conf/paths.yaml') + '\n')
        sb.write('proj/main_rel.yaml', 'p: !include conf/paths.yaml\n')
        sb.write('proj/conf/top.yaml', '!include paths.yaml\n')
        target = os.path.join(sb.dir, 'proj/conf/paths.yaml')
        true_parent = pathlib.Path(target).parents
        expected = os.path.normpath(os.path.join(str(true_parent[n]) if n < len(true_parent) else os.path.join(str(true_parent[-1]), *(['..'] * (n - len(true_parent) + 1))), 'datasets'))
        ways = {
            'absolute source': (sb.dir, [target], None),
            'relative source from proj': (os.path.join(sb.dir, 'proj'), ['conf/paths.yaml'], None),
            'relative source from conf': (os.path.join(sb.dir, 'proj/conf'), ['paths.yaml'], None),
            'nested include (absolute name)': (sb.dir, [os.path.join(sb.dir, 'proj/main_abs.yaml')], 'p'),
            'nested include (relative name), absolute main': (sb.dir, [os.path.join(sb.dir, 'proj/main_rel.yaml')], 'p'),
            'nested include, relative main': (os.path.join(sb.dir, 'proj'), ['main_rel.yaml'], 'p'),
            'top-level include, relative': (os.path.join(sb.dir, 'proj'), ['conf/top.yaml'], None),
            "relative source with a leading '..'": (os.path.join(sb.dir, 'proj/work'), ['../conf/paths.yaml'], None),
            "nested include, relative main with a leading '..'": (os.path.join(sb.dir, 'proj/work'), ['../main_rel.yaml'], 'p'),
        }
        os.makedirs(os.path.join(sb.dir, 'proj/work'))
        for way, (cwd, srcs, key) in ways.items():
            os.chdir(cwd)
            res = build(srcs)
            if res[0] != 'ok':
                return dict(case=case, way=way, reason='build failed', error=res[0], message=res[1][:200])
            try:
                cfg = Config(res[1])
            except Exception as e:
                return dict(case=case, way=way, reason='evaluation failed', message=str(e)[:200])
            sub = cfg[key] if key else cfg
            got = os.path.normpath(os.path.join(cwd, str(sub['data'])))
            if os.path.realpath(got) != os.path.realpath(expected):
                return dict(case=case, way=way, reason='a file-relative !path denotes a different location depending on how its file was reached', expected=expected, got=got, raw=str(sub['data']))
    return None


def known_sig(kf, failing):
    return False


def run(rep, tier, rng):
    rep.rule = ('(a) sequences of 1-4 documents (priority/!del/!merge tags, lists) written to files and built as n sources / one multi-document file / top-level !include [..] / '
                'n top-level includes / nested key: !include [..]; (b) every assignment of {including dir, cwd, both, nowhere} to 1-3 included names, top-level and nested; '
                '(c) !path:parent(n) / !path:file reached through 7 spellings. non-trivial = >= 2 documents sharing a path; distinct = hash')
    base.proofs(rep, 'Properties.C06', THEOREMS, deps=['Proofs.FactsOk'])
    n = 60 if tier == 'quick' else 800
    # correspondence: Builder.flatten on preprocessed stages containing stream nodes vs Model.Stream.build_stream
    items, layouts = [], []
    for i in range(n):
        docs = gen.gen_history(rng, DOCPROF, 1, 4)
        texts = [gen.render(d) for d in docs]
        layouts.append(dict(texts=texts))
        rep.case('\n'.join(texts), len(texts) >= 2, sample=texts if i < 3 else None)
        with Sandbox() as sb:
            names = []
            for j, t in enumerate(texts):
                sb.write(f'd/f{j}.yaml', t)
                names.append(f'f{j}.yaml')
            shape = i % 3
            if shape == 0:
                main = sb.write('d/main.yaml', 'k: !include [' + ', '.join(names) + ']\nq: {a: 1}\n')
            elif shape == 1:
                main = sb.write('d/main.yaml', '!include [' + ', '.join(names) + ']\n')
            else:
                main = sb.write('d/main.yaml', 'q: {a: 1}\n---\nk: !include [' + ', '.join(names[:2]) + ']\n---\n!include ' + names[-1] + '\n')
            from awesomeyaml.builder import Builder
            try:
                b = Builder()
                b.add_source(main)
                b.preprocess()
                intern = ser.Interner()
                stages = [ser.node_term(s, intern) for s in b.stages]
            except Exception:
                continue
            try:
                b.flatten()
                exp = f'(Ok {ser.node_term(b.stages[0], intern)})'
            except Exception as e:
                exp, _ = mergecorr.err_term(e, intern)
            items.append(f'({ser.penv_term(intern)}, {ser.coq_list(stages)}, {exp})')
    hdr = 'From AY Require Import Model.Stream Model.Eq.\nOpen Scope Z_scope.\n'
    chk = 'fun c : penv * list node * res node => res_eqb node_eqb false (build_stream (fst (fst c)) (snd (fst c))) (snd c)'
    bad, errors, wall, cmd = common.run_case_files('c06', hdr, items, chk, shard=100)
    rep.checker_cmds.append(cmd)
    rep.oblige(f'T3 correspondence Model.Stream.build_stream = Builder.flatten on {len(items)} preprocessed stage lists with nested / top-level stream nodes', not bad and not errors,
               (f'{len(bad)} disagreements, first: {layouts[bad[0]] if bad[0] < len(layouts) else "?"}' if bad else '') + (errors[0]['log'][-500:] if errors else ''))
    # correspondence of the lookup model: every placement of <= 3 (quick) / <= 4 (thorough) names over {including dir, cwd, both, nowhere}
    pl = {'inc': 'PInc', 'cwd': 'PCwd', 'both': 'PBoth', 'none': 'PNone'}
    litems, lcases = [], []
    for k in range(1, 4 if tier == 'quick' else 5):
        for pres in itertools.product(['inc', 'cwd', 'both', 'none'], repeat=k):
            kind, data = lookup_outcome(list(pres))
            if kind == 'found':
                exp = '(inl ' + ser.coq_list([f'({"true" if f else "false"}, {i})' for i, f in enumerate(data)]) + ')'
            elif kind == 'missing':
                exp = '(inr ' + ser.coq_list([str(i) for i in data]) + ')'
            else:
                exp = '(inr [(-1)])'
            lcases.append(pres)
            litems.append(f'({ser.coq_list([pl[x] for x in pres])}, {exp})')
    lchk = ('fun c : list place * (list (bool * Z) + list Z) => match run_lookup (fst c), snd c with '
            '| inl a, inl b => list_eqb (fun x y => Bool.eqb (fst x) (fst y) && (snd x =? snd y)) a b '
            '| inr a, inr b => list_eqb Z.eqb a b | _, _ => false end')
    bad, errors, wall, cmd = common.run_case_files('c06l', hdr, litems, lchk, shard=200)
    rep.checker_cmds.append(cmd)
    rep.oblige(f'T2 correspondence Model.Stream.run_lookup = IncludeNode lookup on all {len(litems)} placements of the included files over the two lookup directories', not bad and not errors,
               (f'{len(bad)} disagreements, first: {lcases[bad[0]]}' if bad else '') + (errors[0]['log'][-500:] if errors else ''))
    # correspondence of the path arithmetic: PathNode evaluation / os.path vs Model.PathRef on random spellings (no files needed)
    from awesomeyaml.builder import Builder
    from awesomeyaml.config import Config
    names = ['a', 'b', 'conf', 'x.yaml', 'data', 'w']

    def comps_term(parts, tab):
        return ser.coq_list('Up' if c == '..' else 'Nm %d' % tab.setdefault(c, 1 + len(tab)) for c in parts)

    def pterm(text, tab):
        return f'(mkP {"true" if text.startswith("/") else "false"} {comps_term([c for c in text.split("/") if c not in ("", ".")], tab)})'
    pitems, litems2 = [], []
    for _ in range(300 if tier == 'quick' else 4000):
        parts = [rng.choice(names + ['..', '..']) for _ in range(rng.randint(1, 4))] + ['f.yaml']
        src = ('/' if rng.random() < 0.4 else '') + '/'.join(parts)
        n = rng.randint(0, 5)
        args = [rng.choice(['data', 'w', '..']) for _ in range(rng.randint(0, 3))]
        b = Builder()
        b.add_source('p: !path:parent(%d) [%s]\n' % (n, ', '.join(f'"{a}"' for a in args)), raw_yaml=True, filename=src)
        got = str(Config(b.build())['p'])
        tab = {}
        pitems.append(f'({pterm(src, tab)}, {n}%nat, {comps_term(args, tab)}, {pterm(got, tab)})')
        cwd = '/' + '/'.join(rng.choice(names) for _ in range(rng.randint(0, 3)))
        loc = os.path.normpath(os.path.join(cwd, src))
        tab = {}
        litems2.append(f'({comps_term([c for c in cwd.split("/") if c], tab)}, {pterm(src, tab)}, {comps_term([c for c in loc.split("/") if c], tab)})')
    phdr = 'From AY Require Import Model.Eq Model.PathRef.\nOpen Scope Z_scope.\n'
    bad, errors, wall, cmd = common.run_case_files('c06p', phdr, pitems, 'fun c : ppath * nat * list comp * ppath => ppath_eqb (parent_ref (fst (fst (fst c))) (snd (fst (fst c))) (snd (fst c))) (snd c)')
    rep.checker_cmds.append(cmd)
    rep.oblige(f'T3 correspondence Model.PathRef.parent_ref = evaluated !path:parent(n) node on {len(pitems)} source-name spellings (absolute, relative, with ..)', not bad and not errors,
               (f'{len(bad)} disagreements, first {pitems[bad[0]]}' if bad else '') + (errors[0]['log'][-400:] if errors else ''))
    bad, errors, wall, cmd = common.run_case_files('c06q', phdr, litems2, 'fun c : list comp * ppath * list comp => comps_eqb (locate (fst (fst c)) (snd (fst c))) (snd c)')
    rep.checker_cmds.append(cmd)
    rep.oblige(f'T3 correspondence Model.PathRef.locate = os.path.normpath(os.path.join(cwd, name)) on {len(litems2)} cases', not bad and not errors,
               (f'{len(bad)} disagreements' if bad else '') + (errors[0]['log'][-400:] if errors else ''))
    # directed: single documents (and pairs) that use list operators / !notnew, which act at premerge time
    for tx in (['{steps: !append [c], n: 1}'], ['{steps: !extend [c]}'], ['{steps: [a], m: {x: 1}}', '{steps: !append [c], m: {x: 2}}'], ['{a: {b: !extend [1]}, l: !append [2]}'],
               ['{p: [1, 2], q: {r: 1}}'], ['{p: [1], q: 2}', '{p: !extend [3]}']):
        layouts.append(dict(texts=tx))
    base.run_oracle(rep, 'C06', 'five layouts of one document sequence build the same config', layouts, judge_layouts)
    lk = []
    for k in (1, 2, 3):
        for pres in itertools.product(['inc', 'cwd', 'both', 'none'], repeat=k):
            for nested in (False, True):
                lk.append(dict(present=list(pres), nested=nested))
    if tier == 'quick':
        lk = rng.sample(lk, 50)
    base.run_oracle(rep, 'C06', 'lookup order and missing files (exhaustive over placements for <= 3 names in the thorough tier)', lk, judge_lookup)
    base.run_oracle(rep, 'C06', 'file-relative !path reached through different spellings', [dict(n=k) for k in range(0, 6)], judge_path, known_sig=known_sig)


def replay(data):
    r = data['replay']
    if 'input' in r:
        x = r['input']
        f = judge_layouts(x) if 'texts' in x else (judge_lookup(x) if 'present' in x else judge_path(x))
        print('replay:', 'property FAILS' if f else 'property holds', f or '')
        return 1 if f else 0
    print('no input to replay; broken obligations:', r)
    return 1
