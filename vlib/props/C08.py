"""C08 — !notnew (and command-line overrides) can change but never create paths."""
import copy
from .. import common, gen, mergecorr, oracles, t2, ser
from . import base
from .C04 import set_plain

THEOREMS = ['C08_new_key_rejected', 'C08_children_inherit', 'C08_first_stage', 'C08_cmdline_path',
            'C08_override_sets_exactly_that_path', 'C08_override_mistyped_path_is_an_error',
            'C08_notnew_is_update_without_new_paths', 'C08_notnew_stages_anywhere', 'C08_no_new_path', 'C08_notnew_agrees_with_plain_merge', 'C08_no_new_key_without_permission', 'C08_permission_covers_every_node']
PLAIN = gen.PROFILES['plain']


def strip_negative(n):
    """no negative integer keys in the overriding document (two spellings of one index are out of the reference's scope)"""
    if n[0] == 'map':
        return ('map', n[1], [(k, strip_negative(c)) for k, c in n[2] if not (isinstance(k, int) and k < 0)])
    if n[0] == 'seq':
        return ('seq', n[1], [strip_negative(c) for c in n[2]])
    return n


def add_new_tags(n, rng, p=0.12, depth=0):
    t = n[1]
    if depth > 0 and t is None and n[0] != 'sc' and rng.random() < p:
        t = '!new'
    if n[0] == 'map':
        return ('map', t, [(k, add_new_tags(c, rng, p, depth + 1)) for k, c in n[2]])
    if n[0] == 'seq':
        return ('seq', t, [add_new_tags(c, rng, p, depth + 1) for c in n[2]])
    return n


def gen_case(rng):
    basedoc = gen.gen_doc(rng, PLAIN, root_tag_ok=False)
    newer = gen.related_doc(rng, PLAIN, basedoc)
    newer = strip_negative(newer)
    if rng.random() < 0.5:
        # make it more likely that nothing is new: keep only entries that exist in the base
        def restrict(n, b):
            if n[0] == 'map' and b is not None and b[0] == 'map':
                bd = dict(b[2])
                return ('map', n[1], [(k, restrict(c, bd.get(k))) for k, c in n[2] if k in bd or rng.random() < 0.1])
            return n
        newer = restrict(newer, basedoc)
    newer = add_new_tags(newer, rng)
    newer = ('map', '!notnew', newer[2])
    return dict(kind='notnew', base=basedoc, newer=newer)


def gen_call_case(rng):
    """a !notnew override that replaces a whole subtree (a list, or a !del mapping) holding a nested !call/!bind node"""
    tagk = rng.choice(['!call:vmod.f', '!bind:vmod.g'])
    args = rng.sample(['x', 'y', 'w'], rng.randint(1, 2))
    call_old = ('map', tagk, [(a, ('sc', None, '1')) for a in args])
    new_arg = rng.random() < 0.6
    args2 = list(args) + (['znew'] if new_arg else [])
    call_new = ('map', tagk, [(a, ('sc', None, '2')) for a in args2])
    shape = rng.choice(['list', 'delmap', 'nested_list'])
    if shape == 'list':
        old, new = ('seq', None, [call_old, ('sc', None, '5')]), ('seq', None, [call_new, ('sc', None, '6')])
    elif shape == 'delmap':
        old, new = ('map', None, [('b', call_old), ('c', ('sc', None, '5'))]), ('map', '!del', [('b', call_new), ('c', ('sc', None, '6'))])
    else:
        old, new = ('seq', None, [('map', None, [('b', call_old)])]), ('seq', None, [('map', None, [('b', call_new)])])
    basedoc = ('map', None, [('k', old), ('q', ('sc', None, '0'))])
    newer = ('map', '!notnew', [('k', new)])
    return dict(kind='notnew_call', base=basedoc, newer=newer, creates=new_arg)


def judge_call(case):
    texts = [gen.render(case['base']), gen.render(case['newer'])]
    kind, res = oracles.build(texts)
    if case['creates']:
        if kind == 'ok':
            return dict(texts=texts, reason='a new argument of a nested !call/!bind node was created below !notnew', result=repr(base.to_plain(res)))
        if kind != 'MergeError':
            return dict(texts=texts, reason='expected a MergeError', got=kind, message=res)
        return None
    if kind != 'ok':
        return dict(texts=texts, reason='an override that creates no path failed', got=kind, message=res)
    return None


def exists(plain, path):
    return oracles.lookup(plain, path) is not KeyError


def written(newer, prefix=(), under_new=False):
    """(path, allowed_to_be_new) for every proper node of the overriding document"""
    out = []
    cs = list(newer[2]) if newer[0] == 'map' else (list(enumerate(newer[2])) if newer[0] == 'seq' else [])
    child_new = under_new or newer[1] == '!new'
    if newer[1] == '!notnew':
        child_new = False
    for k, c in cs:
        out.append((prefix + (k,), child_new))
        out += written(c, prefix + (k,), child_new)
    return out


def judge_notnew(case):
    bp = oracles.doc_plain(case['base'])
    texts = [gen.render(case['base']), gen.render(case['newer'])]
    kind, res = oracles.build_plain(texts)
    must_exist = [p for p, ok in written(case['newer']) if not ok]
    missing = [p for p in must_exist if not exists(bp, p)]
    if missing:
        if kind == 'ok':
            return dict(texts=texts, reason='the build succeeded although the !notnew document writes paths that did not exist', missing=[list(p) for p in missing[:3]], result=repr(res))
        if kind != 'MergeError':
            return dict(texts=texts, reason='expected a MergeError', got=kind, message=res)
        return None
    if kind != 'ok':
        if gen.has_tag(case['newer'], '!new'):
            return None      # below a !new node other rules (e.g. a mapping addressing a list) may legitimately fail
        # every written path exists, so a mapping addressing a list uses valid indices: the build must succeed
        return dict(texts=texts, reason='every path written by the !notnew document exists, yet the build failed', got=kind, message=res)
    allowed_new = [p for p, ok in written(case['newer']) if ok]
    for p in oracles.all_paths(res):
        if p and not exists(bp, p) and not any(p[:len(q)] == q for q in allowed_new):
            return dict(texts=texts, reason='a path exists after the merge that did not exist before', path=list(p), result=repr(res))
    return None


def gen_late_case(rng):
    """nodes that are (re-)attached to the overriding document only after it has been parsed - !prev moves an existing node, !extend /
    !append grow a list - placed one or two levels below the !notnew tag; whether the result would hold a path the config built so far
    does not have is computed from the plain data"""
    depth = rng.choice([1, 2, 2])
    base_doc = '{a: {b: {x: 1}, l: [1]}, c: {x: 5}, d: {x: 7, y: 8}, e: [3, 4]}'
    kind = rng.choice(['prev_same', 'prev_new', 'extend', 'append'])
    if kind == 'prev_same':
        inner, target, creates = '!prev c', 'b', False          # c = {x: 5}: only the existing key a.b.x
    elif kind == 'prev_new':
        inner, target, creates = '!prev d', 'b', True           # d = {x, y}: a.b.y does not exist
    elif kind == 'extend':
        inner, target, creates = '!extend [2]', 'l', True       # a.l[1] does not exist
    else:
        inner, target, creates = '!append [2]', 'l', True
    over = '!notnew {a: {%s: %s}}' % (target, inner) if depth == 2 else None
    if depth == 1:
        # directly below the tagged node
        over = '{a: !notnew {%s: %s}}' % (target, inner)
    return dict(late=True, texts=[base_doc, over], creates=creates, kind=kind, depth=depth)


def judge_late(case):
    kind, res = oracles.build_plain(case['texts'])
    if case['creates']:
        if kind == 'ok':
            return dict(texts=case['texts'], reason='a node attached after parsing (!prev / !extend / !append) created a path below !notnew', result=repr(res))
        if kind != 'MergeError':
            return dict(texts=case['texts'], reason='expected a MergeError', got=kind, message=res)
        return None
    if kind != 'ok':
        return dict(texts=case['texts'], reason='an override that creates no path failed', got=kind, message=res)
    return None


def strip_tags(n):
    if n[0] == 'map':
        return ('map', None, [(k, strip_tags(c)) for k, c in n[2]])
    if n[0] == 'seq':
        return ('seq', None, [strip_tags(c) for c in n[2]])
    return ('sc', None, n[2])


def spec_corr(rep, rng, n):
    """the SPEC of C08_notnew_is_update_without_new_paths against the implementation: tag-free documents followed by one tag-free
    document marked !notnew at its root; Coq evaluates  do a <- upd_fold d0 rest; upd_nn a overlay  and compares it with what
    Builder.build returned (the data, or a MergeError).  A disagreement is a concrete failing input of the property."""
    import yaml as pyyaml
    from awesomeyaml import errors
    items, shown = [], []
    for _ in range(n):
        docs = [gen.gen_doc(rng, PLAIN, root_tag_ok=False)]
        for _ in range(rng.choice([0, 0, 1])):
            docs.append(gen.related_doc(rng, PLAIN, docs[-1]))
        over = strip_tags(gen.related_doc(rng, PLAIN, docs[-1]))
        if rng.random() < 0.6:
            bp = oracles.doc_plain(docs[-1])

            def restrict(nn, b):
                if nn[0] == 'map' and isinstance(b, dict):
                    return ('map', None, [(k, restrict(c, b.get(k))) for k, c in nn[2] if k in b or rng.random() < 0.08])
                if nn[0] == 'seq' and isinstance(b, list) and rng.random() < 0.7:
                    return ('seq', None, [restrict(c, b[i]) for i, c in enumerate(nn[2]) if i < len(b)])
                return nn
            over = restrict(over, bp)
        texts = [gen.render(d) for d in docs] + [gen.render(('map', '!notnew', over[2]))]
        try:
            plain_docs = [pyyaml.load(t, Loader=pyyaml.SafeLoader) for t in texts[:-1]]
            plain_over = pyyaml.load(gen.render(over), Loader=pyyaml.SafeLoader)
        except Exception:
            continue
        if not all(isinstance(d, dict) for d in plain_docs) or not isinstance(plain_over, dict):
            continue
        try:
            b = mergecorr.parse_stages(texts)
            got = ('ok', base.to_plain(b.build()))
        except errors.MergeError:
            got = ('merge-error', None)
        except Exception as e:
            got = ('other:' + type(e).__name__, None)
        intern = ser.Interner()
        exp = f'(Some {ser.plain_term(got[1], intern)})' if got[0] == 'ok' else ('None' if got[0] == 'merge-error' else '(Some (PS SNone))')
        items.append(f'({ser.plain_term(plain_docs[0], intern)}, {ser.coq_list(ser.plain_term(d, intern) for d in plain_docs[1:])}, {ser.plain_term(plain_over, intern)}, {exp})')
        shown.append(dict(texts=texts, implementation=got[0]))
        rep.count('notnew spec: implementation ' + got[0].split(':')[0])
    hdr = 'From AY Require Import Model.Eq Spec.Update Spec.UpdateNN Proofs.MergePlain.\nOpen Scope Z_scope.\n'
    chk = ('fun c : plain * list plain * plain * option plain => let \'(d0, rest, ov, e) := c in '
           'match (do a <- upd_fold d0 rest; upd_nn a ov), e with Ok r, Some x => plain_eqb r x | Err _ _, None => true | _, _ => false end')
    bad, errors_, wall, cmd = common.run_case_files('c08n', hdr, items, chk, shard=200)
    rep.checker_cmds.append(cmd)
    rep.oblige(f'T3 correspondence Spec.UpdateNN.upd_nn (after upd_fold) = Builder.build on {len(items)} histories of tag-free documents + one !notnew tag-free overlay (data or MergeError)',
               not bad and not errors_, (f'{len(bad)} disagreements' if bad else '') + (errors_[0]['log'][-400:] if errors_ else ''))
    for i in bad[:3]:
        rep.violation('the implementation differs from the no-new-path update on a !notnew overlay', dict(oracle='upd_nn spec', input=dict(spec=True, **shown[i])))
    rep.extra.setdefault('correspondence', []).append(dict(label='upd_nn spec', cases=len(items), disagreements=len(bad), coq_wall_s=round(wall, 1)))


def render_path(p):
    return gen.render_path(p)


def gen_cmd_case(rng):
    basedoc = gen.gen_doc(rng, PLAIN, root_tag_ok=False)
    # command-line keys: identifiers only
    def ok_keys(n):
        if n[0] == 'map':
            return all(isinstance(k, str) and k.isidentifier() for k, _ in n[2]) and all(ok_keys(c) for _, c in n[2])
        if n[0] == 'seq':
            return all(ok_keys(c) for c in n[2])
        return True
    if not ok_keys(basedoc):
        return None
    paths = [p for p in gen.existing_paths(basedoc) if p and not isinstance(p[0], int)]
    if not paths:
        return None
    p = list(rng.choice(paths))
    mode = rng.choice(['exact', 'exact', 'typo_key', 'typo_index', 'neg_index'])
    if mode == 'typo_key':
        i = rng.randrange(len(p))
        if isinstance(p[i], int):
            return None
        p[i] = p[i] + 'x'
    elif mode == 'typo_index':
        idx = [i for i, c in enumerate(p) if isinstance(c, int)]
        if not idx:
            return None
        i = rng.choice(idx)
        n = len(oracles.lookup(oracles.doc_plain(basedoc), tuple(p[:i])))
        p[i] = n + rng.randint(0, 2)
        p = p[:i + 1]
    elif mode == 'neg_index':
        idx = [i for i, c in enumerate(p) if isinstance(c, int)]
        if not idx:
            return None
        i = rng.choice(idx)
        n = len(oracles.lookup(oracles.doc_plain(basedoc), tuple(p[:i])))
        p[i] = p[i] - n
    val = rng.choice(['5', 'x', 'true', '1.5', 'null', "''", '7', '!force 0.5', '!null', '!!str 5', '!force x'])   # a value may carry its own tag
    return dict(kind='cmdline', base=basedoc, path=p, value=val, mode=mode, pad=rng.choice([0, 0, 1, 2, 3]))


def judge_cmd(case):
    from awesomeyaml.config import Config
    from awesomeyaml.builder import Builder
    from awesomeyaml import errors
    bp = oracles.doc_plain(case['base'])
    arg = render_path(case['path']) + '=' + case['value']
    # options as a shell hands them over: blanks around the option, around '=' and around a raw document do not matter
    pad = case.get('pad', 0)
    basetext = gen.render(case['base'])
    if pad & 1:
        arg = '  ' + render_path(case['path']) + ' = ' + case['value'] + ' '
    if pad & 2:
        basetext = ' ' + basetext + '  '
    try:
        yamls, fnames, raws = Config.process_cmdline([basetext, arg])
        b = Builder()
        b.add_multiple_sources(*yamls, raw_yaml=raws, filename=fnames)
        res = ('ok', base.to_plain(b.build()))
    except errors.Error as e:
        res = (type(e).__name__, str(e)[:200])
    # normalise negative indices for the reference
    p = []
    cur = bp
    ok = True
    for c in case['path']:
        if isinstance(cur, list) and isinstance(c, int):
            if -len(cur) <= c < len(cur):
                c = c % len(cur)
                cur = cur[c]
            else:
                ok = False
        elif isinstance(cur, dict) and c in cur:
            cur = cur[c]
        else:
            ok = False
        p.append(c)
        if not ok:
            break
    if not ok:
        if res[0] != 'MergeError':
            return dict(arg=arg, base=gen.render(case['base']), reason='a mistyped override path must be a MergeError, not a new entry', got=res[0], result=repr(res[1]))
        return None
    tagged = {'!force 0.5': 0.5, '!null': None, '!!str 5': '5', '!force x': 'x'}
    exp = set_plain(bp, tuple(p), tagged[case['value']] if case['value'] in tagged else oracles.scalar_value(case['value']))
    if res[0] != 'ok':
        return dict(arg=arg, base=gen.render(case['base']), reason='override of an existing path failed', got=res[0], message=res[1])
    if base.typed(res[1]) != base.typed(exp):
        return dict(arg=arg, base=gen.render(case['base']), reason='the override did not set exactly that path to the value', expected=repr(exp), got=repr(res[1]))
    return None


def run(rep, tier, rng):
    rep.rule = ('(a) merge histories with !new/!notnew tags (correspondence); (b) base document + a !notnew overriding document derived from it (mutated values, dropped/added keys, lists, '
                'nested !new); (c) command-line overrides a.b[i].c=value over existing paths, mistyped keys, out-of-range and negative indices. non-trivial = the override touches '
                'a nested path; distinct = hash')
    base.proofs(rep, 'Properties.C08', THEOREMS, deps=['Proofs.FactsOk'])
    t2.run(rep, ['eff', 'ck'] if tier == 'quick' else ['eff', 'ck', 'adopt'], tier)
    n = 300 if tier == 'quick' else 5000
    base.merge_t3(rep, rng, ['notnew', 'notnewf'], n, 'notnew', 2, 4)
    # T3: the inline-option translation of Config.process_cmdline, character by character (malformed indices included)
    from awesomeyaml.config import Config as _Config

    def astr(t):
        return '[' + '; '.join('"%s"%%char' % (c if c != '"' else '""') for c in t) + ']'
    citems, copts = [], []
    cnames = ['a', 'b', 'model', 'opt_1', 'lr', 'x9', '_p']
    for _ in range(300 if tier == 'quick' else 4000):
        parts = []
        for _ in range(rng.randint(1, 4)):
            idx = ''.join('[%s]' % rng.choice(['0', '1', '12', '007', '3']) for _ in range(rng.choice([0, 0, 1, 2])))
            parts.append(rng.choice(['', ' ']) + rng.choice(cnames) + idx + rng.choice(['', ' ']))
        opt = rng.choice(['', ' ']) + '.'.join(parts) + rng.choice(['=', ' = ']) + rng.choice(['5', 'foo', '[1, 2]', '{k: 1}', ' 7 ', 'a=b', 'null'])
        if rng.random() < 0.08:
            opt = opt.replace('[', '[x', 1)
        try:
            exp = '(Some %s)' % astr(_Config.process_cmdline([opt])[0][0])
        except Exception:
            exp = 'None'
        citems.append(f'({astr(opt)}, {exp})')
        copts.append(opt)
    chdr = 'From AY Require Import Model.Eq Model.Cmdline.\nFrom Coq Require Import Ascii.\nOpen Scope Z_scope.\n'
    cchk = 'fun c : list ascii * option (list ascii) => match inline_yaml (fst c), snd c with Some a, Some b => ascii_list_eqb a b | None, None => true | _, _ => false end'
    bad, errors, wall, cmd = common.run_case_files('c08c', chdr, citems, cchk, shard=150)
    rep.checker_cmds.append(cmd)
    rep.oblige(f'T3 correspondence Model.Cmdline.inline_yaml = Config.process_cmdline on {len(citems)} inline options (text of the generated document, errors for malformed indices)',
               not bad and not errors, (f'{len(bad)} disagreements, first {copts[bad[0]]!r}' if bad else '') + (errors[0]['log'][-400:] if errors else ''))
    # T3: the document the command line writes, parsed by the real loader, is Model.Loader.load_doc of the model's override_doc
    oitems = []
    for _ in range(150 if tier == 'quick' else 2000):
        comps = []
        for j in range(rng.randint(1, 4)):
            comps.append(rng.choice(cnames))
            for _ in range(rng.choice([0, 0, 1, 2]) if j else 0):
                comps.append(rng.randint(0, 5))
        key = ''
        for cpt in comps:
            key += ('[%d]' % cpt) if isinstance(cpt, int) else (('.' if key else '') + cpt)
        val = rng.randint(0, 99)
        text = _Config.process_cmdline([f'{key}={val}'])[0][0]
        try:
            b = mergecorr.parse_stages([text], [True])
            intern = ser.Interner()
            tree = ser.node_term(b.stages[0], intern)
        except Exception:
            continue
        ks = ser.coq_list(ser.key_term(cpt, intern) for cpt in comps[1:])
        oitems.append(f'((mkLC (Some true) {intern("<s0>")}), {ser.key_term(comps[0], intern)}, {ks}, (SInt {val}), {tree})')
    ohdr = 'From AY Require Import Model.Eq Model.Loader Proofs.OverrideLoad.\nOpen Scope Z_scope.\n'
    ochk = 'fun c : lctx * key * list key * scalar * node => node_eqb (load_doc (fst (fst (fst (fst c)))) (override_doc (snd (fst (fst (fst c)))) (snd (fst (fst c))) (snd (fst c)))) (snd c)'
    bad, errors, wall, cmd = common.run_case_files('c08o', ohdr, oitems, ochk, shard=100)
    rep.checker_cmds.append(cmd)
    rep.oblige(f'T3 correspondence load_doc (override_doc k ks v) = the parsed document of Config.process_cmdline on {len(oitems)} override paths (all raw flags)', bool(oitems) and not bad and not errors,
               (f'{len(bad)} disagreements' if bad else '') + (errors[0]['log'][-400:] if errors else ''))
    spec_corr(rep, rng, 300 if tier == 'quick' else 5000)
    nn, cm = [], []
    for _ in range(500 if tier == 'quick' else 8000):
        nn.append(gen_case(rng))
        c = gen_cmd_case(rng)
        if c:
            cm.append(c)
    for c in nn:
        rep.case(gen.render(c['base']) + gen.render(c['newer']), gen.depth(c['newer']) >= 2, sample=dict(base=gen.render(c['base']), newer=gen.render(c['newer'])))
    for c in cm:
        rep.count('cmdline ' + c['mode'])
        rep.case(gen.render(c['base']) + render_path(c['path']) + c['value'], len(c['path']) >= 2, sample=dict(base=gen.render(c['base']), arg=render_path(c['path']) + '=' + c['value']))
    base.run_oracle(rep, 'C08', '!notnew never creates paths', nn, judge_notnew, show=lambda c: dict(base=gen.render(c['base']), newer=gen.render(c['newer'])))
    base.run_oracle(rep, 'C08', 'nodes attached after parsing (!prev / !extend / !append) one or two levels below !notnew',
                    [gen_late_case(rng) for _ in range(40 if tier == 'quick' else 400)], judge_late)
    cc = [gen_call_case(rng) for _ in range(60 if tier == 'quick' else 600)]
    base.run_oracle(rep, 'C08', '!notnew replacing a subtree that holds a function node', cc, judge_call, show=lambda c: dict(base=gen.render(c['base']), newer=gen.render(c['newer']), creates=c['creates'], call=True))
    base.run_oracle(rep, 'C08', 'command-line override sets exactly one existing path', cm, judge_cmd,
                    show=lambda c: dict(base=gen.render(c['base']), path=c['path'], value=c['value'], mode=c['mode'], pad=c.get('pad', 0)))


def replay(data):
    r = data['replay']
    if 'input' in r:
        from ..reparse import parse_doc
        x = r['input']
        if x.get('late'):
            f = judge_late(x)
            print('replay:', 'property FAILS' if f else 'property holds', f or '')
            return 1 if f else 0
        if x.get('spec'):
            print('replay: the Coq evaluation of upd_nn is part of the check run; texts:', x['texts'], 'implementation gave', x['implementation'])
            return 1
        if x.get('call'):
            f = judge_call(dict(base=parse_doc(x['base']), newer=parse_doc(x['newer']), creates=x['creates']))
        elif 'newer' in x:
            f = judge_notnew(dict(base=parse_doc(x['base']), newer=parse_doc(x['newer'])))
        else:
            f = judge_cmd(dict(base=parse_doc(x['base']), path=x['path'], value=x['value'], mode=x.get('mode'), pad=x.get('pad', 0)))
        print('replay:', 'property FAILS' if f else 'property holds', f or '')
        return 1 if f else 0
    print('no input to replay; broken obligations:', r)
    return 1
