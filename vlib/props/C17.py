"""C17 — node containers stay consistent under any sequence of API operations."""
import random, copy
from .. import common, ser
from . import base

THEOREMS = ['C17_list_reachable', 'C17_list_init', 'C17_list_error_unchanged', 'C17_dict_reachable', 'C17_walk_lookup', 'C17_path_roundtrip']
KEYS = ['a', 'b', 'c', '_p', 'r']


# ---------------------------------------------------------------- op sequences on real containers

def mkval(rng, counter):
    """a fresh value with a unique integer payload; either a plain int or an already built node"""
    from awesomeyaml.nodes.node import ConfigNode
    counter[0] += 1
    z = counter[0]
    if rng.random() < 0.4:
        return ('Nd', z, ConfigNode(z))
    return ('Raw', z, z)


def vterm(v):
    return f'({v[0]} {v[1]})'


def kterm(k):
    if isinstance(k, int):
        return f'(KI {ser.z(k)})'
    return f'(KS {KEYS.index(k) + 1})'


def obs_val(x):
    from awesomeyaml.nodes.node import ConfigNode
    if isinstance(x, ConfigNode):
        try:
            return ('Nd', int(x))
        except Exception:
            return ('Nd', -999)
    return ('Raw', int(x))


def obs_list(l):
    return [obs_val(x) for x in list.__iter__(l)], [(k, obs_val(v)) for k, v in l._children.items()]


def obs_dict(d):
    return [(k, obs_val(v)) for k, v in dict.items(d)], [(k, obs_val(v)) for k, v in d._children.items()]


def err_class(e):
    if isinstance(e, TypeError): return 'TypeErr'
    if isinstance(e, IndexError): return 'IndexErr'
    if isinstance(e, KeyError): return 'KeyErr'
    if isinstance(e, ValueError): return 'ValueErr'
    return 'Other:' + type(e).__name__


def rand_index(rng, n):
    r = rng.random()
    if r < 0.6 and n > 0:
        return rng.randint(-n, n - 1)
    if r < 0.9:
        return rng.randint(-n - 3, n + 3)
    return rng.choice(['a', 'b'])


def gen_list_ops(rng, nops, counter, n0):
    ops = []
    n = n0
    for _ in range(nops):
        kind = rng.choice(['setitem', 'delitem', 'append', 'insert', 'extend', 'remove', 'pop', 'clear', 'set_child', 'remove_child', 'rename_child',
                           'append', 'insert', 'pop', 'delitem'])
        if kind == 'clear' and rng.random() < 0.7:
            kind = 'append'
        if kind in ('setitem', 'set_child', 'insert'):
            ops.append((kind, rand_index(rng, n), mkval(rng, counter)))
        elif kind in ('delitem', 'pop', 'remove_child'):
            ops.append((kind, rand_index(rng, n)))
        elif kind == 'append':
            ops.append((kind, mkval(rng, counter)))
        elif kind == 'extend':
            ops.append((kind, [mkval(rng, counter) for _ in range(rng.randint(0, 3))]))
        elif kind == 'remove':
            ops.append((kind, ('Raw', rng.randint(1, max(1, counter[0] + 1)), None)))
        elif kind == 'clear':
            ops.append((kind,))
        elif kind == 'rename_child':
            ops.append((kind, rand_index(rng, n), rand_index(rng, n)))
        n = max(0, n + {'append': 1, 'insert': 1, 'extend': 1, 'delitem': -1, 'pop': -1, 'remove': -1, 'remove_child': -1}.get(kind, 0))
    return ops


def apply_list_op(l, op):
    k = op[0]
    if k == 'setitem': l[op[1]] = op[2][2]
    elif k == 'delitem': del l[op[1]]
    elif k == 'append': l.append(op[1][2])
    elif k == 'insert': l.insert(op[1], op[2][2])
    elif k == 'extend': l.extend([v[2] for v in op[1]])
    elif k == 'remove': l.remove(op[1][1])
    elif k == 'pop': l.pop(op[1])
    elif k == 'clear': l.clear()
    elif k == 'set_child': l.ayns.set_child(op[1], op[2][2])
    elif k == 'remove_child': l.ayns.remove_child(op[1])
    elif k == 'rename_child': l.ayns.rename_child(op[1], op[2])


def lop_term(op):
    k = op[0]
    if k == 'setitem': return f'LSetItem {kterm(op[1])} {vterm(op[2])}'
    if k == 'delitem': return f'LDelItem {kterm(op[1])}'
    if k == 'append': return f'LAppend {vterm(op[1])}'
    if k == 'insert': return f'LInsert {kterm(op[1])} {vterm(op[2])}'
    if k == 'extend': return 'LExtend ' + ser.coq_list(vterm(v) for v in op[1])
    if k == 'remove': return f'LRemove (Raw {op[1][1]})'
    if k == 'pop': return f'LPop {kterm(op[1])}'
    if k == 'clear': return 'LClr'
    if k == 'set_child': return f'LSetChild {kterm(op[1])} {vterm(op[2])}'
    if k == 'remove_child': return f'LRemoveChild {kterm(op[1])}'
    if k == 'rename_child': return f'LRenameChild {kterm(op[1])} {kterm(op[2])}'


def gen_dict_ops(rng, nops, counter, shadow=False):
    """shadow=True: some keys are names of dict / node methods (items, update, keys ...): the containers REJECT them; a rejected operation must
    leave both views as they were (used for the two-view oracle only - the model has no notion of class attributes)"""
    ops = []
    KEYS_ = KEYS + (['items', 'update', 'keys', 'pop', 'values', 'ayns'] if shadow else [])
    for _ in range(nops):
        kind = rng.choice(['setitem', 'setattr', 'delitem', 'delattr', 'pop', 'popd', 'setdefault', 'update', 'clear', 'set_child', 'remove_child', 'rename_child',
                           'setitem', 'delitem', 'pop', 'rename_child'])
        if kind == 'clear' and rng.random() < 0.7:
            kind = 'setitem'
        key = rng.choice(KEYS_ + [0, 1])
        if kind in ('setattr', 'delattr'):
            key = rng.choice(['a', 'b', 'c', 'r'])     # attribute syntax: public identifiers only
        if kind in ('setitem', 'setattr', 'set_child', 'setdefault'):
            ops.append((kind, key, mkval(rng, counter)))
        elif kind in ('delitem', 'delattr', 'remove_child', 'pop'):
            ops.append((kind, key))
        elif kind == 'popd':
            ops.append((kind, key, mkval(rng, counter)))
        elif kind == 'update':
            ops.append((kind, [(rng.choice(KEYS_ + [0]), mkval(rng, counter)) for _ in range(rng.randint(0, 3))]))
        elif kind == 'clear':
            ops.append((kind,))
        elif kind == 'rename_child':
            ops.append((kind, key, rng.choice(KEYS_ + [0, 1])))
    return ops


def apply_dict_op(d, op):
    k = op[0]
    if k == 'setitem': d[op[1]] = op[2][2]
    elif k == 'setattr': setattr(d, op[1], op[2][2])
    elif k == 'delitem': del d[op[1]]
    elif k == 'delattr': delattr(d, op[1])
    elif k == 'pop': d.pop(op[1])
    elif k == 'popd': d.pop(op[1], op[2][2])
    elif k == 'setdefault': d.setdefault(op[1], op[2][2])
    elif k == 'update': d.update(dict((kk, v[2]) for kk, v in op[1]))
    elif k == 'clear': d.clear()
    elif k == 'set_child': d.ayns.set_child(op[1], op[2][2])
    elif k == 'remove_child': d.ayns.remove_child(op[1])
    elif k == 'rename_child': d.ayns.rename_child(op[1], op[2])


def dop_term(op):
    k = op[0]
    if k in ('setitem', 'setattr', 'set_child'): return f'DSet {kterm(op[1])} {vterm(op[2])}'
    if k in ('delitem', 'delattr', 'remove_child'): return f'DDel {kterm(op[1])}'
    if k == 'pop': return f'DPop {kterm(op[1])} None'
    if k == 'popd': return f'DPop {kterm(op[1])} (Some {vterm(op[2])})'
    if k == 'setdefault': return f'DSetDefault {kterm(op[1])} {vterm(op[2])}'
    if k == 'update':
        # dict(...) of the argument collapses duplicate keys: later value, first position
        d = {}
        for kk, v in op[1]:
            d[kk] = v
        return 'DUpdate ' + ser.coq_list(f'({kterm(kk)}, {vterm(v)})' for kk, v in d.items())
    if k == 'clear': return 'DClear'
    if k == 'rename_child': return f'DRenameChild {kterm(op[1])} {kterm(op[2])}'


def st_term_list(o):
    store, ch = o
    return '(mkL ' + ser.coq_list(f'({a} {ser.z(b)})' for a, b in store) + ' ' + ser.coq_list(f'({kterm(int(k))}, ({a} {ser.z(b)}))' for k, (a, b) in ch) + ')'


def st_term_dict(o):
    store, ch = o
    f = lambda items: ser.coq_list(f'({kterm(int(k) if isinstance(k, int) else str(k))}, ({a} {ser.z(b)}))' for k, (a, b) in items)
    return '(mkDc ' + f(store) + ' ' + f(ch) + ')'


def consistent_list(l):
    from awesomeyaml.nodes.node import ConfigNode
    st = list(list.__iter__(l))
    ch = l._children
    if list(ch.keys()) != list(range(len(st))):
        return f'children keys {list(ch.keys())} are not 0..{len(st) - 1}'
    if any(a is not b for a, b in zip(st, ch.values())):
        return 'list storage and child map hold different objects / order'
    if not all(isinstance(x, ConfigNode) for x in st):
        return 'an entry is not a node'
    return None


def consistent_dict(d):
    from awesomeyaml.nodes.node import ConfigNode
    st = list(dict.items(d))
    ch = list(d._children.items())
    if [k for k, _ in st] != [k for k, _ in ch]:
        return f'dict keys {[k for k, _ in st]} vs child map keys {[k for k, _ in ch]}'
    if any(a[1] is not b[1] for a, b in zip(st, ch)):
        return 'dict storage and child map hold different objects'
    if not all(isinstance(v, ConfigNode) for _, v in st):
        return 'an entry is not a node'
    return None


def run_ops(kind, init, ops):
    """returns (trace of (observation, outcome)), first inconsistency or None, error-changed-state or None"""
    from awesomeyaml.nodes.list import ConfigList
    from awesomeyaml.nodes.dict import ConfigDict
    c = ConfigList([v[2] for v in init]) if kind == 'list' else ConfigDict({k: v[2] for k, v in init})
    obs = obs_list if kind == 'list' else obs_dict
    cons = consistent_list if kind == 'list' else consistent_dict
    app = apply_list_op if kind == 'list' else apply_dict_op
    trace = [(obs(c), 'ok')]
    bad = cons(c)
    badstep = -1 if bad else None
    errchg = None
    for i, op in enumerate(ops):
        before = obs(c)
        try:
            app(c, op)
            out = 'ok'
        except Exception as e:
            out = err_class(e)
            if obs(c) != before and errchg is None:
                errchg = (i, out)
        trace.append((obs(c), out))
        if bad is None:
            bad = cons(c)
            if bad:
                badstep = i
    return trace, (bad, badstep), errchg


def strip_op(op):
    def s(x):
        if isinstance(x, tuple) and len(x) == 3 and x[0] in ('Raw', 'Nd'):
            return [x[0], x[1]]
        if isinstance(x, list):
            return [s(y) for y in x]
        if isinstance(x, tuple):
            return [s(y) for y in x]
        return x
    return s(op)


def rebuild_ops(ops):
    from awesomeyaml.nodes.node import ConfigNode
    def r(x):
        if isinstance(x, list) and len(x) == 2 and x[0] in ('Raw', 'Nd') and isinstance(x[1], int):
            return (x[0], x[1], ConfigNode(x[1]) if x[0] == 'Nd' else x[1])
        if isinstance(x, list):
            return [r(y) for y in x]
        return x
    out = []
    for op in ops:
        o = [op[0]] + [r(y) if not (isinstance(y, list) and y and isinstance(y[0], list) and len(y[0]) == 2 and not isinstance(y[0][0], str)) else [(kk, r(v)) for kk, v in y] for y in op[1:]]
        # update: list of [key, val]
        if op[0] == 'update':
            o = ['update', [(kv[0], r(kv[1])) for kv in op[1]]]
        if op[0] == 'extend':
            o = ['extend', [r(v) for v in op[1]]]
        out.append(tuple(o))
    return out


def judge_ops(case):
    kind, init, ops = case['kind'], case['init'], case['ops']
    init_r = [(k, v) for k, v in rebuild_ops([('x', [list(x) for x in init])])[0][1]] if False else None
    from awesomeyaml.nodes.node import ConfigNode
    def rv(x):
        return (x[0], x[1], ConfigNode(x[1]) if x[0] == 'Nd' else x[1])
    if kind == 'list':
        init_v = [rv(x) for x in init]
    else:
        init_v = [(k, rv(x)) for k, x in init]
    trace, (bad, step), errchg = run_ops(kind, init_v, rebuild_ops(ops))
    if bad:
        return dict(inconsistent=bad, after_op_index=step)
    if errchg and not case.get('shadow'):
        # (with shadowing keys an `update` over several pairs legitimately stops part-way: only the agreement of the two views is judged there)
        return dict(failed_operation_changed_state=errchg)
    return None


# ---------------------------------------------------------------- paths

IDENT = 'abzAZ09_'


def gen_path_string(rng):
    r = rng.random()
    if r < 0.6:
        # rendered valid path
        comps = gen_path(rng)
        from awesomeyaml.nodes.node_path import NodePath
        return NodePath.join_path(comps)
    alphabet = IDENT + '..[[]]--  !'
    return ''.join(rng.choice(alphabet) for _ in range(rng.randint(0, 7)))


def gen_path(rng):
    comps = []
    for _ in range(rng.randint(0, 4)):
        if rng.random() < 0.45:
            comps.append(rng.choice([0, 1, 7, 12, -1, -30, 105]))
        else:
            comps.append(''.join(rng.choice(IDENT) for _ in range(rng.randint(1, 3))))
    return comps


def chars(s):
    return ser.coq_list(f'(ascii_of_nat {ord(c)})' for c in s)


def pcomp_term(c):
    if isinstance(c, int):
        t = str(c)
        return f'(PI {"true" if t.startswith("-") else "false"} {chars(t.lstrip("-"))})'
    return f'(PN {chars(c)})'


def path_cases(rng, n):
    from awesomeyaml.nodes.node_path import NodePath
    items, samples = [], []
    for _ in range(n):
        s = gen_path_string(rng)
        if any(ord(c) > 127 for c in s):
            continue
        try:
            got = list(NodePath.split_path(s))
            # ints are compared through their canonical text
            exp = '(Some ' + ser.coq_list(pcomp_term(c) for c in got) + ')'
            canonical = all((not isinstance(c, int)) or True for c in got)
        except ValueError:
            exp = 'None'
            got = None
        items.append((s, got, f'({chars(s)}, {exp})'))
    return items


def canon_digits_ok(s):
    """the lexer keeps digit strings; Python's int() canonicalises ('007' -> 7, '-0' -> 0): only canonical spellings are compared structurally"""
    import re
    for m in re.finditer(r'\[(-?[0-9]+)\]', s):
        if str(int(m.group(1))) != m.group(1):
            return False
    return True


# ---------------------------------------------------------------- walk / lookup oracle on real trees

def judge_walk(texts):
    from .. import mergecorr
    b = mergecorr.parse_stages(texts)
    try:
        root = b.build()
    except Exception:
        return None
    from awesomeyaml.nodes.node_path import NodePath
    from awesomeyaml.nodes.composed import ComposedNode
    # both views of every container of the merged tree agree (merging moves / removes nodes by path: !prev, !append, !extend, !del)
    todo = [((), root)]
    while todo:
        pp, n = todo.pop()
        if isinstance(n, ComposedNode):
            bad = consistent_list(n) if isinstance(n, list) else consistent_dict(n)
            if bad:
                return dict(path=list(pp), reason='the two views of a container of the merged tree disagree: ' + bad)
            todo += [(pp + (k,), c) for k, c in n._children.items()]
    for p, n in root.ayns.nodes_with_paths():
        got = root.ayns.get_node(p, incomplete=None)
        if got is not n:
            return dict(path=str(p), reason='walk reports a node that the lookup of its path does not return')
        comps = list(p)
        if all(isinstance(c, int) or (isinstance(c, str) and c and all(ch in 'abcdefghijklmnopqrstuvwxyzABCDEFGHIJKLMNOPQRSTUVWXYZ0123456789_' for ch in c)) for c in comps):
            back = list(NodePath.split_path(NodePath.join_path(comps)))
            if back != [c if isinstance(c, int) else str(c) for c in comps]:
                return dict(path=comps, text=NodePath.join_path(comps), parsed_back=back, reason='path text does not parse back to the path')
    return None


def run(rep, tier, rng):
    rep.rule = ('(a) sequences of 1-12 public container operations (all mutators, indices in/out of range, negative, non-int; plain values and '
                'prebuilt nodes) on ConfigList/ConfigDict; (b) path strings (60% rendered valid paths, 40% random over [a-zA-Z0-9_.\\[\\]- !]); '
                '(c) walk/lookup on merged trees. non-trivial = op sequence with >= 3 ops of >= 2 kinds / path with >= 2 components; distinct = hash')
    base.proofs(rep, 'Properties.C17', THEOREMS, deps=['Proofs.FactsOk'])
    N = 400 if tier == 'quick' else 8000
    # (a) container correspondence
    litems, ditems, ocases = [], [], []
    for i in range(N):
        counter = [0]
        kind = 'list' if i % 2 == 0 else 'dict'
        if kind == 'list':
            init = [mkval(rng, counter) for _ in range(rng.randint(0, 4))]
            ops = gen_list_ops(rng, rng.randint(1, 12), counter, len(init))
        else:
            ks = rng.sample(KEYS + [0, 1], rng.randint(0, 4))
            init = [(k, mkval(rng, counter)) for k in ks]
            ops = gen_dict_ops(rng, rng.randint(1, 12), counter)
        trace, (bad, step), errchg = run_ops(kind, init, ops)
        case = dict(kind=kind, init=[[v[0], v[1]] for v in init] if kind == 'list' else [[k, [v[0], v[1]]] for k, v in init], ops=[strip_op(o) for o in ops])
        ocases.append(case)
        kinds = set(o[0] for o in ops)
        rep.case(repr(case), len(ops) >= 3 and len(kinds) >= 2, sample=case if i < 3 else None)
        for o in ops:
            rep.count(f'{kind}.{o[0]}')
        for _, out in trace[1:]:
            rep.count(f'{kind} outcome {out}')
        # Coq case: (initial state, ops, expected list of (state, outcome class))
        if kind == 'list':
            exp = ser.coq_list(f'({st_term_list(o)}, {"OK" if out == "ok" else out})' for o, out in trace[1:])
            litems.append(f'({st_term_list(trace[0][0])}, {ser.coq_list(lop_term(o) for o in ops)}, {exp})')
        else:
            exp = ser.coq_list(f'({st_term_dict(o)}, {"OK" if out == "ok" else out})' for o, out in trace[1:])
            ditems.append(f'({st_term_dict(trace[0][0])}, {ser.coq_list(dop_term(o) for o in ops)}, {exp})')
    hdr = '''From AY Require Import Model.Container Model.Eq.
Open Scope Z_scope.
Inductive oc := OK | TypeErr' | IndexErr' | KeyErr' | ValueErr'.
Notation TypeErr := TypeErr'. Notation IndexErr := IndexErr'. Notation KeyErr := KeyErr'. Notation ValueErr := ValueErr'.
Definition oc_of (o : outcome) : oc := match o with Done | RetVal _ => OK | Container.TypeErr => TypeErr' | Container.IndexErr => IndexErr' | Container.KeyErr => KeyErr' | Container.ValueErr => ValueErr' end.
Definition oc_eqb (a b : oc) : bool := match a, b with OK, OK | TypeErr', TypeErr' | IndexErr', IndexErr' | KeyErr', KeyErr' | ValueErr', ValueErr' => true | _, _ => false end.
Definition val_eqb (a b : val) : bool := match a, b with Raw x, Raw y | Nd x, Nd y => x =? y | _, _ => false end.
Definition kv_eqb (a b : key * val) : bool := (key_eqb (fst a) (fst b) && val_eqb (snd a) (snd b))%bool.
Definition lst_eqb (a b : lst) : bool := (list_eqb val_eqb (lstore a) (lstore b) && list_eqb kv_eqb (lchil a) (lchil b))%bool.
Definition dct_eqb (a b : dct) : bool := (list_eqb kv_eqb (dstore a) (dstore b) && list_eqb kv_eqb (dchil a) (dchil b))%bool.
Fixpoint ltrace (s : lst) (ops : list lop) : list (lst * oc) := match ops with [] => [] | o :: r => let x := lstep s o in (fst x, oc_of (snd x)) :: ltrace (fst x) r end.
Fixpoint dtrace (s : dct) (ops : list dop) : list (dct * oc) := match ops with [] => [] | o :: r => let x := dstep s o in (fst x, oc_of (snd x)) :: dtrace (fst x) r end.
'''
    lchk = 'fun c : lst * list lop * list (lst * oc) => list_eqb (fun a b => (lst_eqb (fst a) (fst b) && oc_eqb (snd a) (snd b))%bool) (ltrace (fst (fst c)) (snd (fst c))) (snd c)'
    dchk = 'fun c : dct * list dop * list (dct * oc) => list_eqb (fun a b => (dct_eqb (fst a) (fst b) && oc_eqb (snd a) (snd b))%bool) (dtrace (fst (fst c)) (snd (fst c))) (snd c)'
    lc = [c for c in ocases if c['kind'] == 'list']
    dc = [c for c in ocases if c['kind'] == 'dict']
    bad, errors, wall, cmd = common.run_case_files('c17l', hdr, litems, lchk)
    rep.checker_cmds.append(cmd)
    rep.oblige(f'T3 correspondence Model.Container.lstep = ConfigList mutators on {len(litems)} operation sequences (state of both stores and outcome after every operation)',
               not bad and not errors, (repr(dict(disagreements=len(bad), first=[lc[i] for i in bad[:2]])) if bad else '') + (errors[0]['log'][-600:] if errors else ''))
    bad, errors, wall, cmd = common.run_case_files('c17d', hdr, ditems, dchk)
    rep.checker_cmds.append(cmd)
    rep.oblige(f'T3 correspondence Model.Container.dstep = ConfigDict mutators on {len(ditems)} operation sequences',
               not bad and not errors, (repr(dict(disagreements=len(bad), first=[dc[i] for i in bad[:2]])) if bad else '') + (errors[0]['log'][-600:] if errors else ''))
    # (b) path lexer correspondence
    pitems = path_cases(rng, 3 * N)
    usable = [(s, got, t) for s, got, t in pitems if canon_digits_ok(s)]
    phdr = 'From AY Require Import Model.Path.\nFrom Coq Require Import ZArith.\nOpen Scope Z_scope.\n' \
           'Fixpoint bad_idx {A} (f : A -> bool) (l : list A) (i : Z) : list Z := match l with [] => [] | x :: r => if f x then bad_idx f r (i + 1) else i :: bad_idx f r (i + 1) end.\n' \
           'Definition la_eqb (a b : list ascii) : bool := if list_eq_dec ascii_dec a b then true else false.\n' \
           'Definition pc_eqb (a b : pcomp) : bool := match a, b with PI n d, PI n\' d\' => (Bool.eqb n n\' && la_eqb d d\')%bool | PN s, PN s\' => la_eqb s s\' | _, _ => false end.\n' \
           'Fixpoint pl_eqb (a b : list pcomp) : bool := match a, b with [], [] => true | x :: r, y :: s => (pc_eqb x y && pl_eqb r s)%bool | _, _ => false end.\n' \
           'Definition op_eqb (a b : option (list pcomp)) : bool := match a, b with None, None => true | Some x, Some y => pl_eqb x y | _, _ => false end.\n'
    pchk = 'fun c : list ascii * option (list pcomp) => (op_eqb (split (fst c)) (snd c) && match snd c with Some p => la_eqb (join true p) (fst c) || negb (path_ok p) | None => true end)%bool'
    bad, errors, wall, cmd = common.run_case_files('c17p', phdr, [t for _, _, t in usable], pchk, shard=600)
    rep.checker_cmds.append(cmd)
    nvalid = sum(1 for _, got, _ in usable if got is not None)
    rep.count('path strings valid', nvalid)
    rep.count('path strings invalid', len(usable) - nvalid)
    rep.oblige(f'T3 correspondence Model.Path.split / join = NodePath.split_path / join_path on {len(usable)} strings ({nvalid} valid)',
               not bad and not errors, (repr(dict(disagreements=len(bad), first=[usable[i][0] for i in bad[:5]])) if bad else '') + (errors[0]['log'][-600:] if errors else ''))
    for s, got, _ in usable:
        rep.case('path:' + s, got is not None and len(got) >= 2)
    # oracles on the implementation
    # operations with keys that shadow class attributes are rejected by the containers: both views must stay as they were
    for _ in range(N // 4):
        counter = [0]
        ks = rng.sample(KEYS + [0, 1], rng.randint(0, 4))
        init = [(k, mkval(rng, counter)) for k in ks]
        ops = gen_dict_ops(rng, rng.randint(2, 10), counter, shadow=True)
        ocases.append(dict(kind='dict', shadow=True, init=[[k, [v[0], v[1]]] for k, v in init], ops=[strip_op(o) for o in ops]))
    base.run_oracle(rep, 'C17', 'two-view consistency after every operation', ocases, judge_ops)
    from .. import gen, mergecorr
    hist = [mergecorr.history_texts(gen.gen_history(rng, gen.PROFILES[p], 1, 3)) for p in ['plain', 'del', 'func', 'ops', 'ops'] for _ in range(N // 8)]
    hist += [['{tbl: {-1: before, 0: here, 1: after}, n: {-12: {-3: x}}}'], ['{a: {x: 1, z: 2}, l: [1, 2, 3], k: 0}', '{q: !prev a.x, m: !prev "l[0]"}'], ['{a: [1], b: 2, c: [3]}', '{a: !append [4], c: !extend [5]}', '{d: !prev a}']]
    base.run_oracle(rep, 'C17', 'walk/lookup and path round trip on merged trees', hist, judge_walk)


def replay(data):
    r = data['replay']
    if 'input' in r:
        x = r['input']
        f = judge_ops(x) if isinstance(x, dict) else judge_walk(x)
        print('replay:', 'property FAILS' if f else 'property holds', f or '')
        return 1 if f else 0
    print('no input to replay; broken obligations:', r)
    return 1
