"""C12 — !eval and f-strings compute what Python computes, with config names visible."""
import ast, dis, os, sys, json, types, contextlib
from .. import common, ser, evalgen, evaldrive
from . import base

THEOREMS = ['C12_order', 'C12_split_spec', 'C12_split_refuted', 'C12_history_single_line', 'C12_history_first_use', 'C12_history_refuted',
            'C12_jumps_retargeted', 'C12_patch_keeps_opcodes']
HEADER = 'From AY Require Import Model.Eq Model.EvalCode.\nOpen Scope Z_scope.\n'
WRAPPER = '__ayns_globals_wrapper'


# ---------------------------------------------------------------- which programs the (partly broken) bytecode rewriter cannot handle: D11a

def fragile_code(code):
    """the patched code object would need an argument wider than one byte (a relative jump across grown loads, a name index >= 127,
    an EXTENDED_ARG) or has an exception table whose offsets the patch shifts"""
    ins = list(dis.get_instructions(code))
    patched = [i.offset for i in ins if i.opname in ('LOAD_GLOBAL', 'LOAD_NAME') and i.argval not in ('ayns', WRAPPER)]
    if patched:
        if any(i.opname == 'EXTENDED_ARG' for i in ins) or len(code.co_names) + 1 >= 127:
            return True
        if code.co_exceptiontable:
            return True
        grow = 1 + dis._inline_cache_entries[dis.opmap['LOAD_ATTR']]
        for i in ins:
            if i.opcode in dis.hasjrel or i.opcode in dis.hasjabs:
                t = i.argval
                lo, hi = sorted((i.offset, t))
                n = sum(1 for p in patched if lo <= p <= hi)
                if abs(t - i.offset) // 2 + grow * n + 2 > 255:
                    return True
    return any(fragile_code(c) for c in code.co_consts if isinstance(c, types.CodeType))


def fragile(build):
    try:
        if build['kind'] == 'eval':
            lines = [l2 for l in build['code'].strip().split('\n') for l2 in l.split(';')]
            return fragile_code(compile('\n'.join(lines[:-1]), '<x>', 'exec')) or fragile_code(compile(lines[-1].strip(), '<x>', 'eval'))
        src = build['code']
        if not (len(src) >= 3 and src[0] == 'f' and src[1] in '\'"' and src[-1] == src[1]):
            src = "f'" + src.replace("'", "\\'") + "'"
        return fragile_code(compile(src.strip(), '<x>', 'eval'))
    except SyntaxError:
        return False


# ---------------------------------------------------------------- correspondence helpers

def zs(s):
    return ser.coq_list(str(ord(c)) for c in s)


def split_fn():
    """the split exactly as the source performs it: the statements assigning lines / exec_lines / eval_line in EvalNode.on_evaluate_impl"""
    src = open(os.path.join(common.REPO, 'awesomeyaml', 'nodes', 'eval.py'), newline='').read().replace('\r\n', '\n')
    tree = ast.parse(src)
    stmts = []
    for node in ast.walk(tree):
        if isinstance(node, ast.FunctionDef) and node.name == 'on_evaluate_impl':
            for st in node.body:
                if isinstance(st, ast.Assign) and len(st.targets) == 1 and isinstance(st.targets[0], ast.Name) and st.targets[0].id in ('lines', 'exec_lines', 'eval_line'):
                    stmts.append(st)
    if [s.targets[0].id for s in stmts] != ['lines', 'lines', 'exec_lines', 'eval_line']:
        raise ValueError('the split statements of EvalNode.on_evaluate_impl are not where the translator expects them')
    mod = ast.Module(body=stmts, type_ignores=[])
    code = compile(ast.fix_missing_locations(mod), '<split>', 'exec')

    def f(text):
        ns = {'self': text}
        exec(code, ns)
        return ns['exec_lines'], ns['eval_line']
    return f


def lookup_cases():
    """GlobalsWrapper.__getattr__ on every presence pattern of a name in the node's globals / the config / builtins"""
    sys.path.insert(0, common.REPO)
    from awesomeyaml.nodes.eval import GlobalsWrapper

    class Ecfg(dict):
        @property
        def _cfgobj(self):
            return self

    class Ctx:
        @contextlib.contextmanager
        def require_all_safe(self, node, path):
            yield
    items = []
    names = {'len': 1, 'zzz_not_builtin': 2}
    for name, nid in names.items():
        for in_g in (False, True):
            for in_c in (False, True):
                g = {name: 11} if in_g else {}
                c = Ecfg({name: 22} if in_c else {})
                w = GlobalsWrapper(g, c, Ctx(), None, None)
                try:
                    v = getattr(w, name)
                    got = 11 if v == 11 else (22 if v == 22 else 33)
                    exp = f'(Some {got})'
                except NameError:
                    exp = 'None'
                bi = f'[({nid}, 33)]' if name == 'len' else '[]'
                items.append(f'({"[(%d, 11)]" % nid if in_g else "[]"}, {"[(%d, 22)]" % nid if in_c else "[]"}, {bi}, {nid}, {exp})')
    return items


def history_cases(rng, n):
    """build sequences in ONE process: single- and multi-line programs reading a symbol, a config entry and a name the code defines"""
    cases, terms = [], []
    for _ in range(n):
        nb = rng.randint(2, 3)
        codes = [rng.choice(['(k1, b, 0)', 'x0 = 5\n(k1, b, x0)', 'x0 = 6\nk1 = k1\n(k1, b, x0)', 'import math\n(k1, b, 1)']) for _ in range(2)]
        builds, model = [], []
        for j in range(nb):
            code = rng.choice(codes)
            k1, bval = 100 + rng.randint(0, 3), 200 + rng.randint(0, 3)
            builds.append(dict(cfg={'b': bval, 'pad': j}, symbols={'k1': k1}, code=code, kind='eval', filename='/tmp/h.yaml'))
            multi = '\n' in code
            defs = []
            if 'x0 = 5' in code:
                defs.append((9, 5))
            if 'x0 = 6' in code:
                defs.append((9, 6))
            model.append(dict(key=codes.index(code) + 1, multi=multi, syms=[(7, k1)], cfg=[(8, bval)], defs=defs, selfdef='k1 = k1' in code))
        cases.append(builds)
        terms.append(model)
    return cases, terms


HIST_CHECK = ('fun c : list build * list (list (option Z)) => '
              '(fix go (gs : list ns) (bs : list build) (es : list (list (option Z))) : bool := match gs, bs, es with '
              '| g :: gr, b :: br, e :: er => list_eqb ons_eqb (map (observe g b []) [7; 8; 9]) e && go gr br er | [], [], [] => true | _, _, _ => false end) '
              '(run_history [] (fst c)) (fst c) (snd c)')


def run(rep, tier, rng):
    rep.rule = ('multi-line Python programs from a grammar (arithmetic, conditionals, comprehensions, generator expressions, lambdas, nested functions with closures, for / while with '
                'break / continue, try / except / finally, with, imports, own definitions shadowing config names and symbols, code long enough for extended arguments, raising programs) over '
                'config names, context symbols (one colliding with a config name) and builtins, with and without a source file name; f-strings (explicit, implicit, bare format); histories of '
                '2-3 builds in one process. Every program runs in a subprocess against native exec / eval. non-trivial = program with >= 2 global loads; distinct = hash of the code')
    base.proofs(rep, 'Properties.C12', THEOREMS, deps=['Proofs.FactsOk'])
    # T2: name resolution
    items = lookup_cases()
    bad, errors, wall, cmd = common.run_case_files('c12l', HEADER, items, 'fun c : ns * ns * ns * Z * option Z => ons_eqb (resolve (fst (fst (fst (fst c)))) (snd (fst (fst (fst c)))) (snd (fst (fst c))) (snd (fst c))) (snd c)')
    rep.checker_cmds.append(cmd)
    rep.oblige(f'T2 correspondence Model.EvalCode.resolve = GlobalsWrapper.__getattr__ on all {len(items)} presence patterns (globals / config / builtins)', not bad and not errors,
               (f'{len(bad)} disagreements' if bad else '') + (errors[0]['log'][-400:] if errors else ''))
    # T3: the split, executed from the source's own statements
    try:
        split = split_fn()
        texts = []
        alphabet = ['a', 'b = 1', 'x', ';', '\n', ' ', '  ', "'s;t'", 'f(1)', '\n\n', ';;', '\t', 'y + 1']
        for _ in range(300 if tier == 'quick' else 3000):
            texts.append(''.join(rng.choice(alphabet) for _ in range(rng.randint(0, 9))))
        items = []
        for t in texts:
            e, v = split(t)
            items.append(f'({zs(t)}, {zs(e)}, {zs(v)})')
        bad, errors, wall, cmd = common.run_case_files('c12s', HEADER, items,
                                                       'fun c : str * str * str => list_eqb Z.eqb (exec_part (fst (fst c))) (snd (fst c)) && list_eqb Z.eqb (eval_part (fst (fst c))) (snd c)')
        rep.checker_cmds.append(cmd)
        rep.oblige(f'T3 correspondence Model.EvalCode.exec_part / eval_part = the split statements of EvalNode.on_evaluate_impl on {len(items)} texts', not bad and not errors,
                   (f'{len(bad)} disagreements, first {texts[bad[0]]!r}' if bad else '') + (errors[0]['log'][-400:] if errors else ''))
    except Exception as e:
        rep.oblige('T3 the split statements of EvalNode.on_evaluate_impl can be located', False, str(e))
    # T3: histories
    hcases, hmodel = history_cases(rng, 40 if tier == 'quick' else 400)
    hres = evaldrive.run_all(hcases, batch=10)
    items, hbad = [], 0
    for builds, model, res in zip(hcases, hmodel, hres):
        if res is None or 'crash' in res:
            hbad += 1
            continue
        bt, et = [], []
        ok = True
        for j, (m, r) in enumerate(zip(model, res)):
            if r['lib'][0] != 'ok':
                ok = False
                break
            k1, bv, x0 = r['lib'][1]
            defs = list(m['defs'])
            if m['selfdef']:
                defs.append((7, None))       # k1 = k1: defined by the code as whatever k1 resolved to
            dterm = ser.coq_list(f'({a}, {b})' for a, b in defs if b is not None)
            bt.append(f'(mkB {m["key"]} {"true" if m["multi"] else "false"} {ser.coq_list("(%d, %d)" % p for p in m["syms"])} {ser.coq_list("(%d, %d)" % p for p in m["cfg"])} {dterm} {j + 1})')
            et.append(ser.coq_list([f'(Some {k1})', f'(Some {bv})', f'(Some {x0})' if m['defs'] else 'None']))
        if ok and not any(m['selfdef'] for m in model):
            items.append(f'({ser.coq_list(bt)}, {ser.coq_list(et)})')
    bad, errors, wall, cmd = common.run_case_files('c12h', HEADER, items, HIST_CHECK)
    rep.checker_cmds.append(cmd)
    rep.oblige(f'T3 correspondence Model.EvalCode.run_history = the values read in {len(items)} build sequences run in one process (module cache incl.)', not bad and not errors and not hbad,
               (f'{len(bad)} disagreements, first {hcases[bad[0]] if bad else ""}' if bad else '') + (f' {hbad} crashed' if hbad else '') + (errors[0]['log'][-400:] if errors else ''))
    # T3: the bytecode rewriter, byte for byte, on natively compiled code objects of grammar programs (nothing is executed)
    from .. import patchcorr
    sys.path.insert(0, common.REPO)
    from awesomeyaml.nodes.eval import EvalNode
    pitems, pstats = [], {}
    for i in range(120 if tier == 'quick' else 1500):
        g = evalgen.Gen(rng)
        code = g.helpers_program() if i % 7 == 3 else g.program(long=(i % 9 == 0), failing=(i % 6 == 0))
        lines = [l2 for l in code.strip().split('\n') for l2 in l.split(';')]
        for src, mode in (('\n'.join(lines[:-1]), 'exec'), (lines[-1].strip(), 'eval')):
            try:
                co = compile(src, '<p>', mode)
            except SyntaxError:
                continue
            patchcorr.cases_of(co, EvalNode._patch_access_to_globals, pitems, pstats)
    for k, v in pstats.items():
        rep.count('patch correspondence: ' + k, v)
    bad, errors, wall, cmd = common.run_case_files('c12p', patchcorr.HEADER, pitems, patchcorr.CHECK, shard=100)
    rep.checker_cmds.append(cmd)
    rep.oblige(f'T3 correspondence Model.Patch.patch = EvalNode._patch_access_to_globals, byte for byte / error class, on {len(pitems)} natively compiled code objects', not bad and not errors,
               (f'{len(bad)} disagreements' if bad else '') + (errors[0]['log'][-400:] if errors else ''))
    # differential oracle
    n = 250 if tier == 'quick' else 4000
    cases = []
    for i in range(n):
        g = evalgen.Gen(rng)
        small = i % 3 != 0
        code = g.helpers_program() if i % 7 == 3 else g.program(nstmts=rng.randint(0, 2) if small else None, long=(i % 25 == 0), failing=(i % 6 == 0))
        b = dict(cfg=evalgen.CFG, symbols=evalgen.SYMS, code=code, kind='eval', filename='/tmp/prog.yaml' if i % 4 else None)
        cases.append([b])
        rep.case(code, sum(code.count(nm) for nm in ('a', 'b', 'k1', 'lst', 'len', 'sum')) >= 2, sample=code if i < 3 else None)
        for f in g.features:
            rep.count('feature ' + f)
    for i in range(n // 4):
        g = evalgen.Gen(rng)
        fmt = g.fstring()
        kind = rng.choice(['fstr', 'fstr', 'fstr-q'])
        code = fmt if kind == 'fstr' else 'f"' + fmt.replace('"', "'") + '"'
        cases.append([dict(cfg=evalgen.CFG, symbols=evalgen.SYMS, code=code, kind='fstr', filename='/tmp/prog.yaml' if i % 2 else None)])
    for i in range(20):
        cases.append([dict(cfg=evalgen.CFG, symbols={}, code=rng.choice(['f"{a} and {k}"', "f'{a + 1}-{s}'", 'f"{lst}"']).replace('{k}', '{b}'), kind='fstr-implicit', filename='/tmp/prog.yaml')])
    # the shortest f-strings (an empty one is a valid f-string: the length test of FStrNode is an off-by-one away from rejecting it)
    for code in ('f""', "f''", 'f"x"', "f'{a}'", 'f" "'):
        cases.append([dict(cfg=evalgen.CFG, symbols={}, code=code, kind='fstr', filename='/tmp/prog.yaml')])
        cases.append([dict(cfg=evalgen.CFG, symbols={}, code=code, kind='fstr-implicit', filename='/tmp/prog.yaml')])
    # histories: the same multi-line program built again with other symbols / config (D11b), plus histories that must be clean
    for i in range(n // 8):
        code = rng.choice(['x0 = 1\n(k1, b, x0)', '(k1, b)', 'def f(p):\n    return p + k1\nf(b)', 'import math\nk1 + b', 'f"{k1}-{b}"'])
        seq = []
        for j in range(rng.randint(2, 3)):
            kind = 'fstr' if code.startswith('f"') else 'eval'
            seq.append(dict(cfg={'b': 10 * j + rng.randint(0, 5), 'pad': j}, symbols=({'k1': 100 * (j + 1)} if rng.random() < 0.8 else {'k1': 100}), code=code, kind=kind, filename='/tmp/prog.yaml'))
        cases.append(seq)
    # a later build uses a name that an EARLIER build passed as a symbol, without passing it itself: must be a NameError (no leak through defaults)
    for j in range(10):
        cases.append([dict(cfg={'b': 1}, symbols={'leak%d' % j: 5}, code='leak%d + b' % j, kind='eval', filename='/tmp/prog.yaml'),
                      dict(cfg={'b': 2}, symbols={}, code='leak%d + b' % j, kind='eval', filename='/tmp/prog.yaml')])
    cases.append([dict(cfg=evalgen.CFG, symbols={}, code="'a;b'", kind='eval', filename='/tmp/prog.yaml')])
    # plain one-line !eval whose whole text is a scalar of another YAML type (the code text must reach Python as written): config entries named
    # yes / no / on / off / null shadow nothing in Python, YAML-only numerals are Python syntax errors
    ycfg = {'yes': 5, 'no': 6, 'on': 7, 'off': 8, 'null': 9, 'Yes': 10}
    for code in ('yes', 'no', 'on', 'off', 'null', 'Yes', 'yes + 1', '017', '1:30', '1__0', '0o17', '1_000', 'None', 'True'):
        cases.append([dict(cfg=ycfg, symbols={}, code=code, kind='eval-plain', filename='/tmp/prog.yaml')])
    # identical multi-line code under two different paths of one config: every node computes in a namespace of its own
    for code in ('a = a * 2\na + 16', 'acc = [a]\nacc.append(b)\nacc', 'if zero:\n    w = 1\nelse:\n    a = a + 5\na', 'def h(q):\n    return q + a\nh(b)'):
        cases.append([dict(cfg=evalgen.CFG, symbols={}, code=code, kind='eval-two', filename='/tmp/prog.yaml')])
    results = evaldrive.run_all(cases, batch=25)

    def judge(cr):
        case, res = cr
        if res is None:
            return dict(reason='no result (the batch runner lost the case)')
        if 'crash' in res:
            return dict(kind='crash', reason='the interpreter crashed / hung while evaluating the program', status=res['crash'], code=case[0]['code'])
        for j, (b, r) in enumerate(zip(case, res)):
            if r['lib'] != r['native']:
                return dict(kind='differs', build=j, reason='the value differs from what native exec / eval computes over the same names', code=b['code'], library=r['lib'], native=r['native'],
                            symbols=b['symbols'], cfg=b['cfg'])
        return None

    def known_sig(k, failing):
        case, res = failing['input']
        f = failing['failure']
        j = f.get('build', 0)
        if k['id'] == 'D11a':
            return any(fragile(b) for b in case)
        if k['id'] == 'D11b':
            return f.get('kind') == 'differs' and j >= 1 and '\n' in case[j]['code'] and any(case[i]['code'] == case[j]['code'] for i in range(j)) and not any(fragile(b) for b in case)
        if k['id'] == 'D11c':
            return ';' in case[j]['code']
        return False
    base.run_oracle(rep, 'C12', 'library value = native exec / eval value; user exceptions surface as EvalError with the cause; no crash; no dependence on earlier builds',
                    list(zip(cases, results)), judge, known_sig=known_sig, show=lambda cr: dict(builds=cr[0]))


def replay(data):
    r = data['replay']
    if 'input' in r:
        case = r['input']['builds']
        res = evaldrive.run_all([case], batch=1)[0]
        print('replay:', json.dumps(res)[:1500])
        bad = res is None or 'crash' in res or any(x['lib'] != x['native'] for x in res)
        print('property FAILS' if bad else 'property holds')
        return 1 if bad else 0
    print('no input to replay; broken obligations:', r)
    return 1
