"""C09 — cross-references alias their target, in any order, and always terminate."""
from .. import common, gen, evalcorr, oracles, mergecorr
from . import base

THEOREMS = ['C09_alias', 'C09_recorded_forever', 'C09_chain_terminates', 'C09_self_reference']


def tree_paths(node, prefix=()):
    from awesomeyaml.nodes.composed import ComposedNode
    out = {prefix: node}
    if isinstance(node, ComposedNode):
        for k, c in node._children.items():
            kk = base.plain_key(k)
            out.update(tree_paths(c, prefix + (kk,)))
    return out


def reference_graph(root):
    """dependency graph over paths of the merged tree: container -> children, reference -> target. Returns (edges, dangling)"""
    from awesomeyaml.nodes.xref import XRefNode
    from awesomeyaml.nodes.composed import ComposedNode
    from awesomeyaml.nodes.node_path import NodePath
    nodes = tree_paths(root)
    edges, dangling = {}, []
    for p, n in nodes.items():
        if isinstance(n, XRefNode):
            try:
                tp = tuple(NodePath.split_path(str.__str__(n)))
            except Exception:
                dangling.append(p)
                continue
            if tp not in nodes:
                dangling.append(p)
            else:
                edges[p] = [tp]
        elif isinstance(n, ComposedNode):
            edges[p] = [p + (base.plain_key(k),) for k in n._children]
    return nodes, edges, dangling


def has_cycle(edges, start):
    WHITE, GREY, BLACK = 0, 1, 2
    color = {}
    stack = [(start, iter(edges.get(start, [])))]
    color[start] = GREY
    while stack:
        v, it = stack[-1]
        for w in it:
            c = color.get(w, WHITE)
            if c == GREY:
                return True
            if c == WHITE:
                color[w] = GREY
                stack.append((w, iter(edges.get(w, []))))
                break
        else:
            color[v] = BLACK
            stack.pop()
    return False


def final_target(nodes, p):
    from awesomeyaml.nodes.xref import XRefNode
    from awesomeyaml.nodes.node_path import NodePath
    seen = set()
    while isinstance(nodes[p], XRefNode):
        if p in seen:
            return None
        seen.add(p)
        p = tuple(NodePath.split_path(str.__str__(nodes[p])))
    return p


def navigate(cfg, path):
    cur = cfg
    for c in path:
        if isinstance(cur, dict):
            if c not in cur:
                return KeyError
            cur = cur[c]
        elif isinstance(cur, list) and isinstance(c, int) and 0 <= c < len(cur):
            cur = cur[c]
        else:
            return KeyError
    return cur


def judge(texts):
    from awesomeyaml.config import Config
    from awesomeyaml.nodes.xref import XRefNode
    evalcorr.install_vmod()
    k, root = oracles.build(texts)
    if k != 'ok':
        return None
    nodes, edges, dangling = reference_graph(root)
    bad = bool(dangling) or has_cycle(edges, ())
    try:
        cfg = base.with_watchdog(lambda: Config(root))
        kind = 'ok'
    except base.Hang:
        return dict(texts=texts, reason='evaluation does not terminate (no result after 3 s)')
    except RecursionError:
        kind, msg = 'EEval', 'recursion'
    except Exception as e:
        kind, msg = evalcorr.err_kind(e), str(e)
    if bad:
        if kind != 'EEval':
            return dict(texts=texts, reason='a dangling reference, a self-reference or a cycle must be reported as an evaluation error', got=kind,
                        dangling=[list(p) for p in dangling[:3]])
        return None
    if kind != 'ok':
        if any(w in msg for w in ('Referenced node', 'Circular reference', 'recursion')):
            return dict(texts=texts, reason='a config whose references are all resolvable and acyclic must evaluate', got=kind, message=msg[:300])
        return None    # an error unrelated to references (e.g. a positional gap in call arguments)
    for p, n in nodes.items():
        if isinstance(n, XRefNode):
            tq = final_target(nodes, p)
            a, b = navigate(cfg, p), navigate(cfg, tq)
            if a is KeyError or b is KeyError:
                continue       # inside the arguments of a call: not reachable through the result
            if a is not b:
                if isinstance(a, (int, float, str, bool, type(None))) and type(a) is type(b) and a == b:
                    continue   # immutable scalars: identity is not observable (small ints / interned strings aside)
                return dict(texts=texts, reason='a reference does not evaluate to the very same object as its target', path=list(p), target=list(tq), got=repr(a), target_value=repr(b))
    return None


BAD_SUFFIX = ['-x', '[1', '.', '..y', '[a]', ' z', ']', '[1]x', '.[0]', '[-1', '[ 1]', '[1].', '!', '/y', '.y-z', '[0][', '.0y']


def word_cases():
    """the text of a reference is a PATH, also when it reads as a YAML bool, null or non-canonical number (written unquoted)"""
    out = []
    for w in ('no', 'on', 'off', 'yes', 'null', '007', '010', '0x10', '1e3'):
        out.append(dict(words=True, texts=["{'%s': [1, {k: 2}], '8': eight, '7': seven, 'None': n, 'False': f, 'True': t, r: !xref %s, s: {t: !xref %s}}" % (w, w, w)], word=w))
    return out


def judge_words(case):
    from awesomeyaml.config import Config
    k, root = oracles.build(case['texts'])
    if k != 'ok':
        return dict(case=case, reason='the document must build', got=k, message=str(root)[:200])
    try:
        cfg = Config(root)
    except Exception as e:
        return dict(case=case, reason='a reference to an existing key was not resolved', error=type(e).__name__ + ': ' + str(e)[:200])
    w = case['word']
    if cfg['r'] is not cfg[w] or cfg['s']['t'] is not cfg[w] or cfg[w] != [1, {'k': 2}]:
        return dict(case=case, reason='the reference does not evaluate to the very object at the path its text names', got=repr(cfg['r'])[:100])
    return None


def gen_malformed(rng):
    """a reference whose text is an existing path followed by something that is not path syntax: it denotes no node, so it must be
    reported - never silently resolved to the node its valid prefix names (the reference graph above is computed with the library's
    own path parser; this oracle does not use it)"""
    import json
    basep = rng.choice(['opt.lr', 'data', 'data[0]', 'opt', 'data[1].k'])
    ref = basep + rng.choice(BAD_SUFFIX)
    where = rng.choice(['r: !xref %s', 'l: [0, !xref %s]', 'c: !call:vmod.f {a: !xref %s}', 'm: {n: !ref %s}'])
    ents = ['opt: {lr: 5}', 'data: [[1, 2], {k: 3}]', where % json.dumps(ref)]
    rng.shuffle(ents)
    return ['{' + ', '.join(ents) + '}']


def judge_malformed(texts):
    from awesomeyaml.config import Config
    evalcorr.install_vmod()
    k, root = oracles.build(texts)
    if k != 'ok':
        return None
    try:
        base.with_watchdog(lambda: Config(root))
    except base.Hang:
        return dict(texts=texts, reason='evaluation does not terminate')
    except Exception as e:
        return None if evalcorr.err_kind(e) == 'EEval' else dict(texts=texts, reason='a reference to a path that does not exist must be an evaluation error', got=evalcorr.err_kind(e))
    return dict(texts=texts, reason='a reference whose text denotes no existing path evaluated without an error (it silently aliased another node)')


def judge_nested(texts):
    """a !call target that itself builds and evaluates ANOTHER config through the public API while the outer evaluation is in progress:
    references evaluated after it must still alias the objects produced before it"""
    from awesomeyaml.config import Config
    vm = evalcorr.install_vmod()

    def nb(*a, **k):
        Config.build('{inner: {v: [1, 2]}, r: !xref inner, c: !call:vmod.g {x: !xref inner.v}}', raw_yaml=True, filename='<nested>')
        return 'nested-done'
    nb.__module__ = 'vmod'
    vm.nb = nb
    k, root = oracles.build(texts)
    if k != 'ok':
        return dict(texts=texts, reason='unexpected merge failure', got=k)
    try:
        cfg = base.with_watchdog(lambda: Config(root))
    except base.Hang:
        return dict(texts=texts, reason='evaluation does not terminate')
    except Exception as e:
        return dict(texts=texts, reason='valid references were reported as errors after a nested evaluation', error=type(e).__name__ + ': ' + str(e)[:200])
    bad = [n for n in ('early', 'late', 'late_chain', 'late_nested') if n in cfg and not (cfg[n] is (cfg['box']['shared'] if n == 'late_nested' else cfg['shared']))]
    if bad:
        return dict(texts=texts, reason='references evaluated after a nested evaluation do not alias their (already evaluated) target', names=bad)
    return None


def run(rep, tier, rng):
    rep.rule = ('single- and two-document configs with !xref/!ref over their own paths: forward and backward references, chains, fan-in, references into and out of lists, '
                'mappings and call arguments, dangling references, self-references, cycles and tails leading into cycles. non-trivial = at least 2 references; distinct = hash')
    base.proofs(rep, 'Properties.C09', THEOREMS, deps=['Proofs.FactsOk'])
    n = 500 if tier == 'quick' else 8000
    extra = [["{a: !xref a}"], ["{a: !xref b, b: !xref a}"], ["{entry: !xref b, b: !xref c, c: !xref b}"], ["{l: [!xref t, 1], t: !xref u, u: !xref t}"],
             ["{a: !xref c, b: !xref c, c: []}"], ["{c: !call:vmod.f [!xref e], e: {}}"]]
    cases, hangs = base.eval_t3(rep, rng, n, dict(), 'xref', extra=extra)
    inputs = [c['texts'] for c in cases] + [h['texts'] for h in hangs]
    for t in inputs:
        rep.case('\n'.join(t), sum(x.count('!xref') + x.count('!ref') for x in t) >= 2, sample=t)
    base.run_oracle(rep, 'C09', 'aliasing / error / termination vs reference graph', inputs, judge)
    nested = [["{shared: {a: [1, 2]}, early: !xref shared, n: !call vmod.nb, late: !xref shared, hop: !xref late, late_chain: !xref hop}"],
              ["{box: {shared: [1, {k: 2}]}, shared: {z: 1}, early: !xref shared, n: !call:vmod.nb {x: 1}, late_nested: !xref box.shared, late: !xref shared}"],
              ["{shared: [0]}", "{n: !call vmod.nb, late: !xref shared}"]]
    base.run_oracle(rep, 'C09', 'references across a nested evaluation (a call target that builds another config)', nested, judge_nested, show=lambda t: dict(nested=True, texts=t))
    base.run_oracle(rep, 'C09', 'reference texts that read as YAML words', word_cases(), judge_words)
    base.run_oracle(rep, 'C09', 'references with a malformed tail denote no node and are reported', [gen_malformed(rng) for _ in range(80 if tier == 'quick' else 1500)],
                    judge_malformed, show=lambda t: dict(malformed=True, texts=t))


def replay(data):
    r = data['replay']
    if 'input' in r:
        if isinstance(r['input'], dict) and (r['input'].get('words') or (isinstance(r['input'].get('case'), dict) and r['input']['case'].get('words'))):
            f = judge_words(r['input'].get('case', r['input']))
        elif isinstance(r['input'], dict) and r['input'].get('nested'):
            f = judge_nested(r['input']['texts'])
        else:
            f = judge_malformed(r['input']['texts']) if isinstance(r['input'], dict) and r['input'].get('malformed') else judge(r['input'])
        print('replay:', 'property FAILS' if f else 'property holds', f or '')
        return 1 if f else 0
    print('no input to replay; broken obligations:', r)
    return 1
