"""C02 — merging plain documents is a right-biased recursive mapping update."""
import copy, yaml as pyyaml
from .. import common, gen, mergecorr
from . import base

THEOREMS = ['C02_fold', 'C02_no_key_lost', 'C02_untouched', 'C02_pointwise', 'C02_key_order', 'C02_untouched_at_any_depth', 'C02_merged_at_any_depth',
            'C02_replaced_wholesale_at_any_depth', 'C02_history_no_key_lost', 'C02_history_untouched', 'C02_history_last_value_decides']


class RefMergeError(Exception):
    pass


def valid_index(i, n):
    if isinstance(i, bool) or not isinstance(i, int):
        raise RefMergeError('non-int key onto list')
    if abs(i) > n or i == n:
        raise RefMergeError('index out of range')
    return i + n if i < 0 else i


def upd(old, new):
    """the property's reference: right-biased recursive update (transliteration of Spec.Update.upd)"""
    if isinstance(old, dict) and isinstance(new, dict):
        out = dict(old)
        for k, v in new.items():
            out[k] = upd(out[k], v) if k in out else v
        return out
    if isinstance(old, list) and isinstance(new, dict):
        idx = [valid_index(k, len(old)) for k in new]   # all keys are validated before anything is merged
        out = list(old)
        for i, (k, v) in zip(idx, new.items()):
            out[i] = upd(out[i], v)
        return out
    return new


def judge(texts):
    from awesomeyaml import errors
    docs = [pyyaml.load(t, Loader=pyyaml.SafeLoader) for t in texts]
    try:
        exp = docs[0]
        for d in docs[1:]:
            exp = upd(exp, d)
        exp = ('ok', base.typed(exp))
    except RefMergeError:
        exp = ('merge-error', None)
    try:
        b = mergecorr.parse_stages(texts)
        root = b.build()
        got = ('ok', base.typed(base.to_plain(root)))
    except errors.MergeError:
        got = ('merge-error', None)
    if exp != got:
        return dict(expected=exp, got=got)
    return None


def gen_index_case(rng):
    """a mapping with several integer keys (valid, negative, out-of-range, in any order) merged onto a list, possibly nested"""
    n = rng.randint(1, 4)
    lst = [rng.choice([1, 'x', [0], {'p': 1}]) for _ in range(n)]
    nk = rng.randint(2, 4)
    keys = []
    while len(keys) < nk:
        k = rng.randint(-n - 2, n + 2)
        if k not in keys:
            keys.append(k)
    upd_map = {k: rng.choice([7, 'y', {'q': 2}, [9]]) for k in keys}
    import json
    def r(v):
        if isinstance(v, dict):
            return '{' + ', '.join(f'{k}: {r(x)}' for k, x in v.items()) + '}'
        if isinstance(v, list):
            return '[' + ', '.join(r(x) for x in v) + ']'
        return json.dumps(v)
    if rng.random() < 0.5:
        return ['{a: %s, keep: {p: 1}}' % r(lst), '{a: %s}' % r(upd_map)]
    return ['{w: {a: %s}, keep: 1}' % r(lst), '{w: {a: %s}}' % r(upd_map), '{keep: 2}']


def judge_incremental(texts):
    """ONE builder: a document is added, the config is built, the next document is added, ... ; every intermediate build must be the fold of
    the documents added so far, and building twice in a row must not change anything"""
    from awesomeyaml import errors
    from awesomeyaml.builder import Builder
    docs = [pyyaml.load(t, Loader=pyyaml.SafeLoader) for t in texts]
    b = Builder()
    exp = None
    for i, (t, d) in enumerate(zip(texts, docs)):
        try:
            exp = d if i == 0 else upd(exp, d)
            e = ('ok', base.typed(exp))
        except RefMergeError:
            return None            # a MergeError inside a history leaves the builder in an unspecified state: out of scope
        b.add_source(t, raw_yaml=True, filename=f'<s{i}>')
        for attempt in (1, 2):
            try:
                got = ('ok', base.typed(base.to_plain(b.build())))
            except errors.MergeError:
                got = ('merge-error', None)
            if got != e:
                return dict(texts=texts[:i + 1], reason=f'build number {attempt} after adding document {i} is not the fold of the documents added so far', expected=e, got=got)
    return None


def run(rep, tier, rng):
    rep.rule = ('histories of 1-4 tag-free mapping documents over keys {a,b,c,r,0,1,2} (later documents are mutations of earlier ones: '
                'type changes at a path, mappings addressing list indices incl. negative/out-of-range, empty containers) plus directed histories in which a mapping with 2-4 integer keys in any order meets a list; '
                'non-trivial = at least 2 stages sharing a path; distinct = hash of the rendered texts')
    base.proofs(rep, 'Properties.C02', THEOREMS, deps=['Proofs.FactsOk'])
    n = 400 if tier == 'quick' else 6000
    index_cases = [gen_index_case(rng) for _ in range(120 if tier == 'quick' else 2000)]
    cases = base.merge_t3(rep, rng, ['plain'], n, 'plain', 1, 5, extra_cases=index_cases)
    for c in cases:
        rep.case('\n'.join(c['texts']), c['nstages'] >= 2, sample=dict(docs=c['texts'], outcome=c['kind']))
    load_corr(rep, cases)
    extra = []
    prof = gen.PROFILES['plain']
    for _ in range(300 if tier == 'quick' else 6000):
        extra.append(mergecorr.history_texts(gen.gen_history(rng, prof, 2, 5)))
    base.run_oracle(rep, 'C02', 'fold-of-update reference vs Builder.build', [c['texts'] for c in cases] + extra + index_cases, judge)
    base.run_oracle(rep, 'C02', 'one builder used incrementally (build after every added document, twice)', ([c['texts'] for c in cases] + extra)[:150 if tier == 'quick' else 3000], judge_incremental,
                    show=lambda t: dict(incremental=True, texts=t))
    rep.count('directed: several integer keys (valid / negative / out of range, any order) merged onto a list', len(index_cases))
    for t in extra:
        rep.case('\n'.join(t), True)


def load_corr(rep, cases):
    """the theorem's `load_plain` is what the real loader builds for a tag-free document"""
    from .. import ser
    import yaml as pyyaml
    items = []
    for c in cases:
        intern = ser.Interner()
        b = mergecorr.parse_stages(c['texts'])
        for i, (t, st) in enumerate(zip(c['texts'], b.stages)):
            data = pyyaml.load(t, Loader=pyyaml.SafeLoader)
            items.append(f"({ser.node_term(st, intern)}, {intern('<s%d>' % i)}, {ser.plain_term(data, intern)})")
    hdr = 'From AY Require Import Model.Merge Model.Eq Proofs.MergePlain.\nOpen Scope Z_scope.\n'
    chk = 'fun c : node * Z * plain => node_eqb (fst (fst c)) (load_plain (mkD None None (Some true) (snd (fst c)) (snd c)))'
    bad, errors, wall, cmd = common.run_case_files('load', hdr, items, chk, shard=400)
    rep.checker_cmds.append(cmd)
    rep.oblige(f'T3 correspondence Proofs.MergePlain.load_plain = awesomeyaml.yaml.parse on {len(items)} tag-free documents', not bad and not errors,
               (f'{len(bad)} disagreements, first index {bad[:3]}' if bad else '') + (errors[0]['log'][-500:] if errors else ''))


def replay(data):
    r = data['replay']
    if 'input' in r:
        f = judge_incremental(r['input']['texts']) if isinstance(r['input'], dict) and r['input'].get('incremental') else judge(r['input'])
        print('replay:', 'property FAILS' if f else 'property holds', f or '')
        return 1 if f else 0
    print('no input to replay; broken obligations:', r)
    return 1
