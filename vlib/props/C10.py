"""C10 — every dynamic node is evaluated exactly once, independent of layout."""
from .. import common, gen, evalcorr, oracles
from . import base
from .C09 import tree_paths, reference_graph, has_cycle, navigate, final_target
from .C15 import permute, has_negative_key

THEOREMS = ['C10_at_most_once', 'C10_memo_invariant', 'C10_same_object', 'C10_exactly_once', 'C10_wellformed_trees']


def canon(v, ids=None):
    """structure of an evaluated config up to key order, with object identities as alias classes"""
    import functools
    ids = {} if ids is None else ids
    def oid(o):
        return ids.setdefault(id(o), len(ids))
    if isinstance(v, evalcorr.Rec):
        return ('rec', v.f, [canon(a, ids) for a in v.args], sorted((repr(k), canon(a, ids)) for k, a in v.kwargs.items()))
    if isinstance(v, functools.partial):
        return ('partial', v.func.__name__, [canon(a, ids) for a in v.args], sorted((repr(k), canon(a, ids)) for k, a in v.keywords.items()))
    if isinstance(v, dict):
        return ('d', sorted((repr(k), canon(a, ids)) for k, a in v.items()))
    if isinstance(v, list):
        return ('l', [canon(a, ids) for a in v])
    if callable(v):
        return ('fn', getattr(v, '__name__', '?'))
    return base.typed(v)


def evaluate(texts):
    from awesomeyaml.config import Config
    evalcorr.install_vmod()
    k, root = oracles.build(texts)
    if k != 'ok':
        return k, None, None, None
    del evalcorr.CALL_LOG[:]
    try:
        cfg = base.with_watchdog(lambda: Config(root))
        return 'ok', root, cfg, list(evalcorr.CALL_LOG)
    except base.Hang:
        return 'HANG', root, None, None
    except RecursionError:
        return 'EEval', root, None, list(evalcorr.CALL_LOG)
    except Exception as e:
        return evalcorr.err_kind(e), root, None, list(evalcorr.CALL_LOG)


def judge(case):
    from awesomeyaml.nodes.call import CallNode
    from awesomeyaml.nodes.xref import XRefNode
    docs = case['docs']
    texts = [gen.render(d) for d in docs]
    kind, root, cfg, calls = evaluate(texts)
    if kind == 'HANG':
        return dict(texts=texts, reason='evaluation does not terminate')
    if kind != 'ok':
        # the permuted layout must fail the same way
        k2, _, _, _ = evaluate([gen.render(d) for d in case['perm']])
        if k2 != kind and not any(has_negative_key(d) for d in docs):
            return dict(texts=texts, reason='the outcome depends on the order of keys', original=kind, permuted=k2, permuted_texts=[gen.render(d) for d in case['perm']])
        return None
    nodes = tree_paths(root)
    live = {}
    for p, n in nodes.items():
        if isinstance(n, CallNode):
            f = str(n._func)
            live[f] = live.get(f, 0) + 1
    ran = {}
    for f in calls:
        ran[f] = ran.get(f, 0) + 1
    if ran != live:
        return dict(texts=texts, reason='each !call node of the merged tree must run exactly once (and nothing else)', call_nodes_in_tree=live, calls_observed=ran)
    # all consumers see the same object
    for p, n in nodes.items():
        if isinstance(n, XRefNode):
            tq = final_target(nodes, p)
            if tq is None:
                continue
            a, b = navigate(cfg, p), navigate(cfg, tq)
            if a is KeyError or b is KeyError:
                continue
            if isinstance(b, evalcorr.Rec) and a is not b:
                return dict(texts=texts, reason='a consumer got a different object than the result of the dynamic node', path=list(p), target=list(tq))
    # layout independence (not for documents in which a negative key gives one list element two spellings: there the order
    # of the entries of one mapping decides which value wins - permuting them is not meaning-preserving)
    if any(has_negative_key(d) for d in docs):
        return None
    k2, _, cfg2, calls2 = evaluate([gen.render(d) for d in case['perm']])
    if k2 != 'ok':
        return dict(texts=texts, reason='the outcome depends on the order of keys', original='ok', permuted=k2, permuted_texts=[gen.render(d) for d in case['perm']])
    if canon(cfg) != canon(cfg2):
        return dict(texts=texts, reason='the evaluated config depends on the order of keys', permuted_texts=[gen.render(d) for d in case['perm']],
                    original=repr(cfg)[:300], permuted=repr(cfg2)[:300])
    if sorted(calls) != sorted(calls2):
        return dict(texts=texts, reason='the set of executed dynamic nodes depends on the order of keys', original=calls, permuted=calls2)
    return None


def gen_overwrite_case(rng):
    """a dynamic node with nested dynamic arguments is overwritten / deleted / re-targeted by a later stage: the nested ones must never run"""
    pr = rng.choice(['', '', "{{'priority': 1}}"])
    nested = f"!call:vmod.g{pr} {{u: {rng.randint(1, 9)}}}"
    old = f"m: !call:vmod.f {{w: {nested}, x: 1}}"
    if rng.random() < 0.2:
        # a plain MAPPING holding a dynamic node is replaced by a function node ("dict <- call" replaces the dict): the old content must not run,
        # wherever the new call is written - also below an ancestor tagged !merge (the ancestor's mark says how the ancestor merges)
        tag = rng.choice(['', '!merge ', '!merge '])
        where = rng.choice(['parent', 'root'])
        older = '{k: {m: {x: %s, keep: 1}, d: 2}, z: 0}' % nested
        inner = '{e: 3, m: !call:vmod.h {a: 2}}' if rng.random() < 0.5 else '{m: !call:vmod.h {a: 2}}'
        newer = ('{k: %s%s}' % (tag, inner)) if where == 'parent' else ('%s{k: %s}' % (tag, inner))
        if pr:
            return None
        return dict(texts=[older, newer], expect=['vmod.h'], how='dict_to_call')
    how = rng.choice(['scalar', 'del', 'retarget', 'retarget_str', 'same_target'])
    if how == 'scalar':
        new, expect = 'm: 5', []
    elif how == 'del':
        new, expect = 'm: !del {z: 1}', ['vmod.f']      # the mapping replaces the ARGUMENTS; the call node (target f) stays
    elif how == 'retarget':
        new, expect = 'm: !call:vmod.h {a: 2}', ['vmod.h']
    elif how == 'retarget_str':
        new, expect = 'm: vmod.h', ['vmod.h']
    else:
        new, expect = 'm: {x: 3}', ['vmod.g', 'vmod.f']      # same target: arguments are updated, the nested call stays and runs once
    if pr and how in ('scalar', 'del'):
        return None          # a prioritised (protected) argument legitimately survives a plain overwrite: out of this scenario's scope
    return dict(texts=['{' + old + ', k: 0}', '{' + new + '}'], expect=expect, how=how)


def judge_overwrite(case):
    kind, root, cfg, calls = evaluate(case['texts'])
    if kind != 'ok':
        return dict(texts=case['texts'], reason='unexpected failure', got=kind)
    if sorted(calls) != sorted(case['expect']):
        return dict(texts=case['texts'], reason='nodes that no longer exist after merging must not be evaluated (and surviving ones exactly once)', expected_calls=case['expect'], observed=calls)
    return None


def gen_scenario(rng):
    """hand-shaped layouts the document grammar does not produce: one dynamic node under two paths (YAML anchor / alias), and !eval
    consumers that reach dynamic nodes by (nested) name.  Returns entries [(key, text)] per layout, probes and the calls expected."""
    n = rng.randint(1, 9)
    kind = rng.choice(['alias', 'alias_nested', 'eval_top', 'eval_partial', 'eval_partial_deep', 'eval_through', 'eval_multiline'])
    if kind in ('alias', 'alias_nested'):
        pair = [('a', f'!call:vmod.f {{u: {n}}}'), ('b', None)]      # the later one of the two becomes the alias
        rest = [('r', '!xref P.a'), ('r2', '!xref P.b'), ('user', '!call:vmod.g {p: !xref P.a, q: !xref P.b}'), ('l', '[!xref P.b, !xref P.a]')]
        rest = rng.sample(rest, rng.randint(1, len(rest)))
        probes = ['C.a is C.b'] + {'r': ['C.r is C.a'], 'r2': ['C.r2 is C.a'], 'user': ["C.user.kwargs['p'] is C.a", "C.user.kwargs['q'] is C.a"], 'l': ['C.l[0] is C.a', 'C.l[1] is C.a']}.get('x', [])
        for k, _ in rest:
            probes += {'r': ['C.r is C.a'], 'r2': ['C.r2 is C.a'], 'user': ["C.user.kwargs['p'] is C.a", "C.user.kwargs['q'] is C.a"], 'l': ['C.l[0] is C.a', 'C.l[1] is C.a']}[k]
        expect = ['vmod.f'] + (['vmod.g'] if any(k == 'user' for k, _ in rest) else [])
        nested = kind == 'alias_nested'
        layouts = []
        for _ in range(3):
            ents = pair + rest
            rng.shuffle(ents)
            seen = False
            out = []
            for k, v in ents:
                if k in ('a', 'b'):
                    out.append((k, ('*s' if seen else '&s ' + pair[0][1])))
                    seen = True
                else:
                    out.append((k, v.replace('P.', 'box.' if nested else '')))
            body = '{' + ', '.join(f'{k}: {v}' for k, v in out) + '}'
            layouts.append('{box: ' + body + ', z: 0}' if nested else body)
        probes = [p.replace('C.', 'cfg.box.' if nested else 'cfg.') for p in probes]
        return dict(kind=kind, layouts=layouts, probes=probes, expect=sorted(expect))
    if kind == 'eval_multiline':
        # multi-line !eval nodes (their statements run in a namespace kept in sys.modules, named after path + code): two nodes with IDENTICAL code
        # at the paths a.b and a_b share that name - each must still execute its statements, once
        code = '"import vmod\\nt%d = vmod.f()\\nt%d"' % (n, n)
        layouts = ['{a: {b: !eval %s}, a_b: !eval %s, r: !xref a.b}' % (code, code), '{a_b: !eval %s, r: !xref a.b, a: {b: !eval %s}}' % (code, code)]
        return dict(kind=kind, layouts=layouts, probes=['cfg.a.b is not cfg.a_b', 'cfg.r is cfg.a.b', 'isinstance(cfg.a_b, Rec)'], expect=['vmod.f', 'vmod.f'])
    if kind == 'eval_through':
        # a reference THROUGH a mapping (to a nested entry) and a name lookup of the mapping itself (repaired defect 4628d78)
        ents = [('r', '!xref c.d.e'), ('q', '!eval c'), ('c', '{d: {e: !call:vmod.f {u: %d}}, f: 2}' % n), ('q2', '!xref c')]
        probes = ['cfg.q is cfg.c', 'cfg.q2 is cfg.c', 'cfg.r is cfg.c.d.e', 'type(cfg.q).__name__ == "Bunch"', 'all(type(k) is str for k in cfg.q.keys())']
        layouts = []
        for _ in range(3):
            e2 = list(ents)
            rng.shuffle(e2)
            layouts.append('{' + ', '.join(f'{k}: {v}' for k, v in e2) + '}')
        layouts.append('{' + ', '.join(f'{k}: {v}' for k, v in ents) + '}')
        return dict(kind=kind, layouts=layouts, probes=probes, expect=['vmod.f'])
    if kind == 'eval_top':
        ents = [('x', f'!call:vmod.f {{u: {n}}}'), ('e', '!eval "x"'), ('r', '!xref x'), ('g', '!call:vmod.g {p: !xref x, q: !xref e}')]
        probes = ['cfg.e is cfg.x', 'cfg.r is cfg.x', "cfg.g.kwargs['p'] is cfg.x", "cfg.g.kwargs['q'] is cfg.x"]
        expect = ['vmod.f', 'vmod.g']
        layouts = []
        for _ in range(3):
            e2 = list(ents)
            rng.shuffle(e2)
            layouts.append('{' + ', '.join(f'{k}: {v}' for k, v in e2) + '}')
        return dict(kind=kind, layouts=layouts, probes=probes, expect=sorted(expect))
    # an !eval inside a mapping reaches a sibling through the name of its own (in-progress) ancestor, while an unrelated top-level
    # key has the same name as that sibling
    deep = kind == 'eval_partial_deep'
    pre = 'box.inner.' if deep else 'box.'
    inner = [('y', f'!eval "{pre}x.f"'), ('x', f'!call:vmod.f {{u: {n}}}'), ('w', f'!eval "len({pre}v)"'), ('v', '[1, 2, 3]')]
    top = [('x', '!call vmod.g'), ('by_xref', '!xref x'), ('by_eval', '!eval "x"')]
    cp = 'cfg.box.inner.' if deep else 'cfg.box.'
    probes = [f"{cp}y == 'vmod.f'", f"{cp}w == 3", f"isinstance({cp}x, Rec) and {cp}x.f == 'vmod.f'", "isinstance(cfg.x, Rec) and cfg.x.f == 'vmod.g'",
              'cfg.by_xref is cfg.x', 'cfg.by_eval is cfg.x']
    layouts = []
    for _ in range(3):
        i2, t2 = list(inner), list(top)
        rng.shuffle(i2)
        rng.shuffle(t2)
        body = '{' + ', '.join(f'{k}: {v}' for k, v in i2) + '}'
        if deep:
            body = '{inner: ' + body + ', o: 1}'
        ents = t2 + [('box', body)]
        rng.shuffle(ents)
        layouts.append('{' + ', '.join(f'{k}: {v}' for k, v in ents) + '}')
    return dict(kind=kind, layouts=layouts, probes=probes, expect=['vmod.f', 'vmod.g'])


def run_scenarios(rep, rng, n):
    from .. import scenrun
    scens = [gen_scenario(rng) for _ in range(n)]
    flat = [dict(texts=[l], probes=s['probes']) for s in scens for l in s['layouts']]
    res = scenrun.run_batch(flat)
    it = iter(res)
    for s in scens:
        s['results'] = [next(it) for _ in s['layouts']]
        rep.count('scenario ' + s['kind'])

    def judge_s(s):
        for l, r in zip(s['layouts'], s['results']):
            if r['kind'] != 'ok':
                return dict(text=l, reason='build / evaluation fails (or crashes / hangs) in this layout', got=r['kind'], err=r.get('err'))
            if sorted(r['calls']) != s['expect']:
                return dict(text=l, reason='every dynamic node must run exactly once', expected_calls=s['expect'], observed=r['calls'])
            bad = [p for p, v in zip(s['probes'], r['probes']) if v is not True]
            if bad:
                return dict(text=l, reason='a consumer does not see the object produced by the dynamic node (or the value depends on the layout)', failing_probes=bad)
        return None
    base.run_oracle(rep, 'C10', 'aliased dynamic nodes / !eval consumers by (nested) name, three key orders each', scens, judge_s,
                    show=lambda s: dict(scenario=True, kind=s['kind'], layouts=s['layouts'], probes=s['probes'], expect=s['expect']))


def run(rep, tier, rng):
    rep.rule = ('configs with recording !call/!bind nodes consumed through !xref (forward/backward/chained), call arguments and lists, in 1-2 stages where later stages overwrite or delete '
                'dynamic nodes; every config is also built with the keys of all mappings permuted. non-trivial = >= 1 call node with >= 1 consumer; distinct = hash')
    base.proofs(rep, 'Properties.C10', THEOREMS, deps=['Proofs.FactsOk'])
    n = 500 if tier == 'quick' else 8000
    extra = [["{s: !call vmod.f, a: !call:vmod.g [!xref s], b: !call:vmod.g {x: !xref s}, c: !xref s}"],
             ["{a: !call:vmod.g [!xref s, !xref s], s: !call vmod.f}"]]
    cases, hangs = base.eval_t3(rep, rng, n, dict(cycles=False), 'once', extra=extra)
    inputs = []
    for c in cases:
        if c.get('docs'):
            inputs.append(dict(docs=c['docs'], perm=[permute(d, rng) for d in c['docs']]))
    from ..reparse import parse_doc
    for e in extra:
        docs = [parse_doc(t) for t in e]
        inputs.append(dict(docs=docs, perm=[permute(d, rng) for d in docs]))
    for c in inputs:
        t = '\n'.join(gen.render(d) for d in c['docs'])
        rep.case(t, '!call' in t and ('!xref' in t or '!ref' in t), sample=[gen.render(d) for d in c['docs']])
    ow = [c for c in (gen_overwrite_case(rng) for _ in range(60 if tier == 'quick' else 600)) if c]
    base.run_oracle(rep, 'C10', 'overwritten / deleted / re-targeted dynamic nodes never run', ow, judge_overwrite, show=lambda c: dict(overwrite=True, **c))
    run_scenarios(rep, rng, 40 if tier == 'quick' else 400)
    base.run_oracle(rep, 'C10', 'exactly-once / same object / key-order independence', inputs, judge,
                    show=lambda c: dict(docs=[gen.render(d) for d in c['docs']], perm=[gen.render(d) for d in c['perm']]))


def replay(data):
    r = data['replay']
    if 'input' in r:
        from ..reparse import parse_doc
        x = r['input']
        if x.get('scenario'):
            from .. import scenrun
            res = scenrun.run_batch([dict(texts=[l], probes=x['probes']) for l in x['layouts']])
            bad = [(l, r) for l, r in zip(x['layouts'], res) if r['kind'] != 'ok' or sorted(r['calls']) != x['expect'] or any(v is not True for v in r['probes'])]
            print('replay:', 'property FAILS' if bad else 'property holds', bad[:1])
            return 1 if bad else 0
        if x.get('overwrite'):
            f = judge_overwrite(x)
            print('replay:', 'property FAILS' if f else 'property holds', f or '')
            return 1 if f else 0
        f = judge(dict(docs=[parse_doc(t) for t in x['docs']], perm=[parse_doc(t) for t in x['perm']]))
        print('replay:', 'property FAILS' if f else 'property holds', f or '')
        return 1 if f else 0
    print('no input to replay; broken obligations:', r)
    return 1
