"""Building blocks shared by the per-property checks."""
import os, sys, json, time, hashlib
from .. import common, gen, mergecorr, ser

TRUSTED_COMMON = [
    'Coq 8.16.1 kernel and vm_compute (used for FactsOk lemmas, finite sweeps, refutation witnesses and for evaluating the model in the generated case files); no native_compute',
    'tools/extract_facts.py (T1 extractor for constants/tables), tools/translate_src.py (T1b Python-ast -> Gallina translator for the pure decision functions and the field-mutating prefixes of _replace_self / _replace_other / _propagate_implicit_values; its output is proved equal to the model in Proofs/SrcOk.v), tools/translate_merge.py (T1c: control skeletons of the four on_merge_impl methods over the primitives of the model, API calls mapped by name; proved equal to the rules of Model/Merge.v in Proofs/SrcMergeOk.v), tools/translate_eval.py (T1d: the control skeletons of EvalContext.evaluate_node / evaluate and Config.check_missing / __init__ over the primitives of Model/Eval.v; proved equal to eval_node / check_missing / config in Proofs/SrcEvalOk.v), vlib/ser.py (Python node -> Coq term printer, string interning), vlib/gen.py (generators)',
    'the hand-written Gallina model is tied to /repo by correspondence (sampled for tree recursion, exhaustive for finite flag logic), not by translation',
    'modelled, not verified: PyYAML (scanner/parser/composer/resolver/emitter), pickle/copy, CPython semantics, error message text',
]

_build_cache = {}
# properties whose theorems unfold the translated flag functions / the translated merge rules
SRC_PROPS = {'C01', 'C02', 'C03', 'C04', 'C05', 'C06', 'C07', 'C08', 'C13', 'C14', 'C15', 'C16', 'C17', 'C18', 'C19'}
SRCM_PROPS = {'C02', 'C03', 'C04', 'C05', 'C06', 'C07', 'C08', 'C13', 'C14', 'C15', 'C16'}
SRCE_PROPS = {'C07', 'C09', 'C10', 'C11', 'C14'}


def build(rep):
    """T1 + full proof build (shared, incremental). Adds the facts obligation."""
    if 'b' not in _build_cache:
        _build_cache['b'] = common.build_coq()
    b = _build_cache['b']
    rep.oblige('T1: Gen/Facts.v regenerated from /repo (fail-closed extraction)', b['facts_ok'], b['facts_log'][-500:] if not b['facts_ok'] else '')
    # the translated definitions are obligations of the properties whose theorems rest on the translated functions (a change of the flag /
    # merge code is no evidence against, say, the evaluation order or the bytecode rewriter)
    if rep.pid in SRC_PROPS:
        rep.oblige('T1b: Gen/Src.v translated from the Python source of the flag getters, has_priority_over, _validate_index, _get_child_kwargs, the flag part of _replace_self / _replace_other, the guards and the per-child step of _propagate_implicit_values (fail-closed translator)',
                   b['src_ok'], b['src_log'][-500:] if not b['src_ok'] else '')
        sok = common.vo_ok('Proofs/SrcOk')
        rep.oblige('coq: Proofs.SrcOk compiles (every translated definition is proved equal to the model function the theorems use)', sok,
                   '' if sok else json.dumps([e for e in b['errors'] if e['file'].startswith('Proofs/SrcOk') or e['file'].startswith('Gen/Src.')][:2]))
    if rep.pid in SRCM_PROPS:
        rep.oblige('T1c: Gen/SrcMerge.v - the control skeletons of ConfigNode / ComposedNode / FunctionNode / ConfigList.on_merge_impl _require_all_new of ConfigNode / ComposedNode, Builder.flatten and ConfigNode.merge translated from the Python source over the model\'s primitives (fail-closed translator)',
                   b['srcm_ok'], b['srcm_log'][-500:] if not b['srcm_ok'] else '')
        mok = common.vo_ok('Proofs/SrcMergeOk')
        rep.oblige('coq: Proofs.SrcMergeOk compiles (the translated skeletons are proved equal to leaf_merge / comp_merge (merge_step, prune) / func_merge / list_merge / require_all_new / merge2 / flatten of Model/Merge.v)', mok,
                   '' if mok else json.dumps([e for e in b['errors'] if e['file'].startswith('Proofs/SrcMergeOk') or e['file'].startswith('Gen/SrcMerge')][:2]))
    if rep.pid in SRCE_PROPS:
        rep.oblige('T1d: Gen/SrcEval.v - the control skeletons of EvalContext.evaluate_node, EvalContext.evaluate, Config.check_missing and Config.__init__ translated from the Python source over the primitives of Model/Eval.v (fail-closed translator)',
                   b['srce_ok'], b['srce_log'][-500:] if not b['srce_ok'] else '')
        eok = common.vo_ok('Proofs/SrcEvalOk')
        rep.oblige('coq: Proofs.SrcEvalOk compiles (the translated skeletons are proved equal to Model.Eval.eval_node - safety check before memo lookup before entering the node - and to check_missing / config: the scan of the caller\'s tree, then the copy, then the evaluation of the copy by a fresh context)', eok,
                   '' if eok else json.dumps([e for e in b['errors'] if e['file'].startswith('Proofs/SrcEvalOk') or e['file'].startswith('Gen/SrcEval')][:2]))
    rep.checker_cmds.append(f'tools/extract_facts.py coq/Gen/Facts.v && tools/translate_src.py coq/Gen/Src.v && tools/translate_merge.py coq/Gen/SrcMerge.v && tools/translate_eval.py coq/Gen/SrcEval.v && make -k -j{common.NCPU} -C coq (full .vo build)')
    return b


def proofs(rep, module, theorems, deps=()):
    """module e.g. 'Properties.C02'; theorems: names that must be established. deps: other .vo that must be current."""
    b = build(rep)
    rel = module.replace('.', '/')
    ok = common.vo_ok(rel)
    detail = ''
    if not ok:
        errs = [e for e in b['errors']]
        detail = json.dumps(errs[:3]) if errs else b['log'][-1500:]
    for d in deps:
        dok = common.vo_ok(d.replace('.', '/'))
        rep.oblige(f'coq: {d} compiles (model / FactsOk lemmas the theorems rely on)', dok, '' if dok else json.dumps([e for e in b['errors'] if e['file'].startswith(d.replace('.', '/'))][:2]))
    if ok:
        pa, out = common.print_assumptions(module, theorems)
        if pa is None:
            for t in theorems:
                rep.oblige(f'theorem {module}.{t}', False, out[-800:])
        else:
            for t in theorems:
                txt = pa.get(t, '')
                rep.oblige(f'theorem {module}.{t}', True, 'Print Assumptions: ' + ' '.join(txt.split())[:300])
                rep.trusted.append(f'{t}: ' + ' '.join(txt.split())[:300])
    else:
        for t in theorems:
            rep.oblige(f'theorem {module}.{t}', False, detail)
    rep.trusted.extend(x for x in TRUSTED_COMMON if x not in rep.trusted)
    return ok


def merge_t3(rep, rng, profiles, n, label='merge', nmin=1, nmax=4, extra_cases=()):
    """Sampled correspondence Model.Merge.flatten vs Builder.flatten on generated histories.
    Returns the list of usable cases (dicts with texts, kind, root...)."""
    cases = []
    skipped = 0
    incons = []
    for texts in extra_cases:
        r = mergecorr.run_case(list(texts))
        if r['ok']:
            cases.append(r)
    for i in range(n):
        prof = gen.PROFILES[profiles[i % len(profiles)]]
        docs = gen.gen_history(rng, prof, nmin, nmax)
        texts = mergecorr.history_texts(docs)
        r = mergecorr.run_case(texts)
        if not r['ok']:
            skipped += 1
            if r.get('inconsistent'):
                incons.append(r)
            continue
        r['docs'] = docs
        r['profile'] = profiles[i % len(profiles)]
        cases.append(r)
        for d in docs:
            for t, c in gen.tag_hist(d).items():
                rep.count('tag ' + t, c)
        rep.count(f'{label} stages={len(texts)}')
        rep.count(f'{label} outcome={r["kind"]}')
    bad, errors, wall, cmd = common.run_case_files(label, mergecorr.HEADER, [c['term'] for c in cases], mergecorr.CHECK)
    rep.checker_cmds.append(cmd)
    rep.count(f'{label} skipped(unparseable/unsupported)', skipped)
    ok = not bad and not errors and not incons
    detail = ''
    if bad:
        detail = json.dumps(dict(disagreements=len(bad), first=[dict(texts=cases[i]['texts'], impl=cases[i]['kind'], err=cases[i].get('error')) for i in bad[:3]]))
    elif errors:
        detail = errors[0]['log'][-800:]
    elif incons:
        detail = 'container stores disagree: ' + json.dumps(dict(texts=incons[0]['texts'], why=incons[0]['why']))
    rep.oblige(f'T3 correspondence Model.Merge.flatten = Builder.flatten on {len(cases)} generated histories ({"/".join(profiles)})', ok, detail)
    rep.extra.setdefault('correspondence', []).append(dict(label=label, cases=len(cases), disagreements=len(bad), coq_wall_s=round(wall, 1)))
    for i, c in enumerate(cases):
        c['model_agrees'] = i not in set(bad)
    return cases


def to_plain(node):
    """own converter over _children (never native_value): real node -> plain Python data"""
    from awesomeyaml.nodes.composed import ComposedNode
    from awesomeyaml.nodes.scalar import ConfigNone, configbool
    if isinstance(node, ComposedNode):
        if isinstance(node, list):
            return [to_plain(c) for c in node._children.values()]
        return {plain_key(k): to_plain(c) for k, c in node._children.items()}
    from awesomeyaml.nodes.scalar import ConfigScalarMarker
    if isinstance(node, ConfigScalarMarker):
        v = node._get_native_value()
        return v
    return ('<' + type(node).__name__ + '>',)


def plain_key(k):
    from awesomeyaml.nodes.scalar import ConfigScalarMarker
    if isinstance(k, ConfigScalarMarker):
        return k._get_native_value()
    return k


def typed(x):
    """plain data with Python types made explicit (1 vs True vs 1.0), order preserving"""
    if isinstance(x, dict):
        return ['dict', [[typed(k), typed(v)] for k, v in x.items()]]
    if isinstance(x, list):
        return ['list', [typed(v) for v in x]]
    if isinstance(x, tuple):
        return ['tuple', [typed(v) for v in x]]
    return [type(x).__name__, repr(x)]


def match_known(pid, signature_fn, case):
    """return the known-finding entry matching this failing case, if any"""
    for k in common.known_findings():
        if k.get('property') != pid:
            continue
        try:
            if signature_fn(k, case):
                return k
        except Exception:
            continue
    return None


def run_oracle(rep, pid, name, inputs, judge, in_domain=lambda x: True, known_sig=None, show=lambda x: x, max_report=3):
    """judge(x) -> None if the property holds on x, else a dict describing the failure.
    Failing inputs matching a known finding are reported as KNOWN-FINDING; others become violations with a replay."""
    n = 0
    fails = 0
    for x in inputs:
        if not in_domain(x):
            rep.count(f'{name}: outside the theorem domain (not judged)')
            continue
        n += 1
        try:
            f = judge(x)
        except Exception as e:
            import traceback
            f = dict(oracle_exception=type(e).__name__ + ': ' + str(e)[:300], trace=traceback.format_exc()[-800:])
        if f is None:
            continue
        k = match_known(pid, known_sig, dict(input=x, failure=f)) if known_sig else None
        if k is not None:
            rep.known(f"{k['id']}: {k['what']}")
            rep.count(f'{name}: known finding {k["id"]} reproduced')
            continue
        fails += 1
        if fails <= max_report:
            rep.violation(f'{name}: property fails on the implementation', dict(oracle=name, input=show(x), failure=f))
    rep.count(f'{name}: judged', n)
    rep.extra.setdefault('oracles', []).append(dict(name=name, judged=n, failing=fails))
    return fails


# ---------------------------------------------------------------- evaluator correspondence (shared by C07, C09, C10, C11, C13, C14)

class Hang(BaseException):
    pass


def with_watchdog(fn, seconds=3.0):
    """run fn() in the main thread; a pure-Python endless loop is interrupted by SIGALRM"""
    import signal

    def handler(signum, frame):
        raise Hang()
    old = signal.signal(signal.SIGALRM, handler)
    signal.setitimer(signal.ITIMER_REAL, seconds)
    try:
        return fn()
    finally:
        signal.setitimer(signal.ITIMER_REAL, 0)
        signal.signal(signal.SIGALRM, old)


def eval_t3(rep, rng, n, gen_kw, label='eval', with_safes=False, extra=()):
    """sampled correspondence Model.Eval.config vs Config(tree); returns usable cases"""
    from .. import evalcorr
    cases, skipped, hangs = [], 0, []
    todo = [([t for t in e], None, None) for e in extra]
    for i in range(n):
        docs = evalcorr.gen_eval_history(rng, **gen_kw)
        texts = [gen.render(d) for d in docs]
        safes = [rng.random() < 0.6 for _ in texts] if (with_safes and rng.random() < 0.4) else None
        todo.append((texts, safes, docs))
    for texts, safes, docs in todo:
        try:
            r = with_watchdog(lambda: evalcorr.run_case(texts, safes))
        except Hang:
            hangs.append(dict(texts=texts, safes=safes))
            continue
        if not r['ok']:
            skipped += 1
            continue
        r['docs'] = docs
        cases.append(r)
        rep.count(f'{label} outcome={r["kind"]}')
    bad, errors, wall, cmd = common.run_case_files(label, evalcorr.HEADER, [c['term'] for c in cases], evalcorr.CHECK)
    rep.checker_cmds.append(cmd)
    rep.count(f'{label} skipped (merge error / unsupported)', skipped)
    ok = not bad and not errors and not hangs
    detail = ''
    if hangs:
        detail = 'evaluation did not terminate within 3 s: ' + json.dumps(hangs[0])
    elif bad:
        detail = json.dumps(dict(disagreements=len(bad), first=[dict(texts=cases[i]['texts'], safes=cases[i]['safes'], impl=cases[i]['kind'], err=cases[i].get('error')) for i in bad[:3]]))
    elif errors:
        detail = errors[0]['log'][-800:]
    rep.oblige(f'T3 correspondence Model.Eval.config = Config(tree) on {len(cases)} generated configs (value with object identities, order of calls, error class)', ok, detail)
    rep.extra.setdefault('correspondence', []).append(dict(label=label, cases=len(cases), disagreements=len(bad), hangs=len(hangs), coq_wall_s=round(wall, 1)))
    return cases, hangs
