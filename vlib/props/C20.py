"""C20 — concurrent builds in different threads do not influence each other."""
import os, itertools
from .. import common, gen, ser, sched
from . import base
from .C06 import Sandbox

THEOREMS = ['C20_noninterference', 'C20_independent_of_others', 'C20_no_unlisted_shared_state', 'C20_shared_slot_refuted']
HEADER = 'From AY Require Import Model.Eq Model.Threads.\nOpen Scope Z_scope.\n'


# ---------------------------------------------------------------- the builds the threads perform

def describe(root):
    from .C09 import tree_paths
    out = []
    for p, n in tree_paths(root).items():
        out.append((tuple(str(c) for c in p), type(n).__name__, n.ayns.source_file, n._default_safe, n.ayns.safe))
    return out


def make_works(sb, variant):
    """callables building from different files with different safe flags, includes and failing inputs; each returns a description of
    every node: path, kind, the file it records, the safety of its source, its effective safety"""
    from awesomeyaml.builder import Builder
    from awesomeyaml.config import Config
    d = sb.dir
    sb.write('a/main.yaml', 'model: {name: resnet, layers: [1, 2, {k: !force 3}], opt: !del {lr: 0.1}}\nref: !path:parent [data]\n')
    sb.write('b/main.yaml', 'run: {seed: 7, tags: [x, y]}\nmodel: !include inc/part.yaml\n---\nextra: {z: !weak 1}\n')
    sb.write('b/inc/part.yaml', 'name: vgg\ndepth: [16, 19]\nwhere: !path:parent [weights]\n')
    sb.write('c/top.yaml', '!include [one.yaml, two.yaml]\n')
    sb.write('c/one.yaml', 'a: {b: [1, 2]}\n')
    sb.write('c/two.yaml', 'a: {b: [3]}\nc: !unsafe 5\n')
    sb.write('e/broken.yaml', 'a: {b: [1, 2\n')
    sb.write('e/missing.yaml', 'a: 1\nb: !include nowhere.yaml\n')
    sb.write('e/clash.yaml', 'a: {b: 1}\n---\na: !notnew {zz: 2}\n')

    def build(path, safe, evaluate=True):
        def work():
            b = Builder()
            b.add_source(os.path.join(d, path), safe=safe)
            root = b.build()
            out = describe(root)
            if evaluate:
                try:
                    cfg = Config(root)
                    out.append(('evaluated', repr(cfg)))
                except Exception as e:
                    out.append(('evaluation error', type(e).__name__))
            return out
        work.label = f'{path} safe={safe}'
        return work

    def prebuilt(path, safe):
        """the Builder object is CREATED here (by the thread that prepares the works) and only used - sources added, built - by the worker thread,
        which never constructs a Builder itself"""
        b = Builder()

        def work():
            b.add_source(os.path.join(d, path), safe=safe)
            root = b.build()
            out = describe(root)
            try:
                out.append(('evaluated', repr(Config(root))))
            except Exception as e:
                out.append(('evaluation error', type(e).__name__))
            return out
        work.label = f'{path} safe={safe} (builder created by the preparing thread)'
        return work

    table = {
        'pre-ab': [prebuilt('a/main.yaml', True), prebuilt('b/main.yaml', False)],
        'pre-cb': [prebuilt('c/top.yaml', False), build('b/main.yaml', True)],
        'ab': [build('a/main.yaml', True), build('b/main.yaml', False)],
        'ba': [build('b/main.yaml', True), build('a/main.yaml', False)],
        'bc': [build('b/main.yaml', False), build('c/top.yaml', True)],
        'a-broken': [build('a/main.yaml', False), build('e/broken.yaml', True)],
        'missing-b': [build('e/missing.yaml', True), build('b/main.yaml', False)],
        'clash-c': [build('e/clash.yaml', True), build('c/top.yaml', False)],
        'abc': [build('a/main.yaml', True), build('b/main.yaml', False), build('c/top.yaml', True)],
        'errors2': [build('e/missing.yaml', False), build('e/clash.yaml', True)],
    }
    return table[variant]


VARIANTS = ['ab', 'ba', 'bc', 'a-broken', 'missing-b', 'clash-c', 'abc', 'errors2', 'pre-ab', 'pre-cb']


def outcome(res):
    """comparable per-thread result; an error is compared by type and full text (its own context: file names, marks)"""
    kind, v = res
    if kind == 'ok':
        return ('ok', v)
    if kind == 'error':
        # everything a user sees when the error is reported: type, text, the chain of causes and the library frames of the traceback
        # (api_entry shortens the traceback and re-raises from the original cause - per thread)
        import traceback
        chain, e, seen = [], v, set()
        while e is not None and id(e) not in seen and len(chain) < 6:
            seen.add(id(e))
            frames = tuple((os.path.basename(fr.filename), fr.name) for fr in traceback.extract_tb(e.__traceback__) if 'awesomeyaml' in fr.filename)
            chain.append((type(e).__name__, frames))
            e = e.__cause__
        return ('error', type(v).__name__, str(v), tuple(chain))
    return (kind, None)


def sequential(works):
    out = []
    for w in works:
        try:
            out.append(outcome(('ok', w())))
        except BaseException as e:
            out.append(outcome(('error', e)))
    return out


# ---------------------------------------------------------------- exploration of interleavings on the real code

def profile(works):
    """run every thread alone under the tracer: number of yield points and the positions of slot-touching / context lines"""
    info = []
    sequential(works)          # warm-up: one-time imports and class caches must not shift the positions
    for i, w in enumerate(works):
        s = sched.Scheduler(1, [(0, None)], mode='all', record=True)
        s.run([w])
        lines = s.lines[0]
        hot = [k for k, key in enumerate(lines) if key in s.slots or key[0].endswith(('builder.py', 'yaml.py', 'errors.py'))]
        writes = [k for k, key in enumerate(lines) if key in s.slots and s.slots[key][0] in ('Init', 'Store', 'StoreAnd', 'ApiSet')]
        info.append(dict(n=len(lines), hot=hot, writes=writes))
    return info


def plans(info, rng, budget, max_preempt):
    """schedules with <= max_preempt pre-emptions placed at (and around) slot-touching and context-handling lines, plus random ones"""
    n = len(info)
    out = []
    def positions(t, k):
        hot = info[t]['hot']
        cand = set()
        for h in hot:
            cand.update((h, h + 1, h + 2))
        cand = sorted(c for c in cand if 0 < c <= info[t]['n'])
        pick = set(rng.sample(cand, min(k, len(cand))))
        while len(pick) < k and info[t]['n'] > 2:
            pick.add(rng.randrange(1, info[t]['n']))
        return sorted(pick)
    per = max(4, int(budget ** 0.5))
    guided = []
    # guided by the model's counter-example (C20_shared_slot_refuted): A is stopped right after one of its slot writes, B right after
    # one of its own, then A goes on creating nodes
    for a in range(n):
        for b in range(n):
            if a == b:
                continue
            rest = [t for t in range(n) if t not in (a, b)]
            for ka in info[a]['writes']:
                for kb in info[b]['writes']:
                    guided.append([(a, ka + 1), (b, kb + 1)] + [(t, None) for t in rest] + [(a, None), (b, None)])
    if len(guided) > 4 * budget:
        guided = rng.sample(guided, 4 * budget)
    for first in range(n):
        others = [t for t in range(n) if t != first]
        for k in positions(first, budget // (2 * n)):
            out.append([(first, k)] + [(t, None) for t in others] + [(first, None)])          # one pre-emption
    if max_preempt >= 2:
        for first in range(n):
            for second in range(n):
                if second == first:
                    continue
                for k in positions(first, per):
                    for m in positions(second, per):
                        rest = [t for t in range(n) if t not in (first, second)]
                        out.append([(first, k), (second, m)] + [(t, None) for t in rest] + [(first, None), (second, None)])
    if max_preempt >= 3:
        for _ in range(budget // 2):
            a, b = rng.sample(range(n), 2)
            out.append([(a, rng.choice(positions(a, 6))), (b, rng.choice(positions(b, 6))), (a, rng.randrange(1, 60)), (b, None), (a, None)])
    rng.shuffle(out)
    return guided + out[:budget]


PRISTINE = {}


def pristine(variant):
    """the sequential results, computed before any interleaving has run in this process (a shared slot left in a wrong state by an
    earlier schedule would otherwise corrupt the reference as well)"""
    if variant not in PRISTINE:
        with Sandbox() as sb:
            PRISTINE[variant] = [repr(o).replace(sb.dir, '<tmp>') for o in sequential(make_works(sb, variant))]
    return PRISTINE[variant]


def judge_fresh(case):
    """the same judgement in a fresh interpreter (nothing left over from earlier schedules)"""
    import subprocess, json, sys
    p = subprocess.run([sys.executable, '-W', 'ignore', '-c',
                        'import sys, json; sys.path.insert(0, "/verif"); from vlib.props import C20; print("RESULT " + json.dumps(C20.judge(json.loads(sys.argv[1]))))',
                        json.dumps(case)], capture_output=True, text=True, timeout=300, env=dict(os.environ))
    for line in p.stdout.splitlines():
        if line.startswith('RESULT '):
            return json.loads(line[7:])
    return dict(reason='the fresh-interpreter run crashed', stderr=p.stderr[-400:])


def judge(case):
    """run the threads under the given plan; every thread must produce exactly what it produces sequentially"""
    with Sandbox() as sb:
        works = make_works(sb, case['variant'])
        expected = sequential(works)
        ref = pristine(case['variant'])
        for i, e in enumerate(expected):
            if repr(e).replace(sb.dir, '<tmp>') != ref[i]:
                return dict(variant=case['variant'], plan=case['plan'], thread=i, work=works[i].label,
                            reason='state left behind by earlier interleavings changes what a later sequential build produces',
                            pristine=ref[i][:300], now=repr(e).replace(sb.dir, '<tmp>')[:300])
        s = sched.Scheduler(len(works), [tuple(x) for x in case['plan']], mode='all')
        got = [outcome(r) if r is not None else ('no result', None) for r in s.run(works)]
        norm = lambda o: repr(o).replace(sb.dir, '<tmp>')
        for i, (e, g) in enumerate(zip(expected, got)):
            if norm(e) != norm(g):
                diff = first_diff(e, g, sb.dir)
                return dict(variant=case['variant'], plan=case['plan'], thread=i, work=works[i].label,
                            reason='a thread built something different from its sequential build under this interleaving', difference=diff)
    return None


def first_diff(e, g, tmp):
    if e[0] != g[0]:
        return dict(sequential=repr(e)[:300].replace(tmp, '<tmp>'), concurrent=repr(g)[:300].replace(tmp, '<tmp>'))
    if e[0] == 'ok':
        for a, b in itertools.zip_longest(e[1], g[1]):
            if a != b:
                return dict(sequential=repr(a)[:300].replace(tmp, '<tmp>'), concurrent=repr(b)[:300].replace(tmp, '<tmp>'))
    return dict(sequential=repr(e)[:400].replace(tmp, '<tmp>'), concurrent=repr(g)[:400].replace(tmp, '<tmp>'))


# ---------------------------------------------------------------- correspondence of the slot machine

def enc_val(v, files):
    if v is None or v is False:
        return 1
    if v is True:
        return 2
    if isinstance(v, str):
        if v not in files:
            files[v] = 3 + len(files)
        return files[v]
    return 1


def action_term(ev, files):
    a, s, val = ev
    if a == 'Init':
        return f'Init {s} {1 if s == "SFile" else 2}'
    if a in ('Load', 'Restore', 'Obs'):
        return f'{a} {s}'
    if a in ('Store', 'StoreAnd'):
        return f'{a} {s} {enc_val(val, files)}'
    if a in ('ApiSet', 'ApiClear'):
        return a
    raise ValueError(f'unrecognised slot line: {s}')


def slot_case(variant, rng, nsched):
    """thread programs = the slot actions traced from the real code running alone; then the real code and the model are both driven
    by the same slot-granular schedules and the values read at every Obs line are compared"""
    items = []
    with Sandbox() as sb:
        works = make_works(sb, variant)
        progs, files = [], {}
        for w in works:
            s = sched.Scheduler(1, [], mode='slots')
            s.run([w])
            progs.append([action_term(ev, files) for ev in s.events[0]])
        unknown = [k for k, v in sched.slot_lines().items() if v[0] == 'Unknown']
        total = sum(len(p) for p in progs)
        for _ in range(nsched):
            # a random interleaving at slot-action granularity, in bursts (so that enter / node / exit sequences get cut at every point)
            order = []
            left = [len(p) for p in progs]
            while any(left):
                t = rng.choice([i for i, l in enumerate(left) if l])
                k = min(left[t], rng.choice([1, 1, 2, 3, 5, 8]))
                order += [t] * k
                left[t] -= k
            s = sched.Scheduler(len(works), [(t, 1) for t in order], mode='slots')
            s.run(works)
            exp = []
            for t in range(len(works)):
                exp.append(ser.coq_list(f'({sl}, {enc_val(v, files)})' for sl, v in s.observed[t]))
            items.append(f'({ser.coq_list(ser.coq_list(p) for p in progs)}, {ser.coq_list(str(t) + "%nat" for t in order)}, {ser.coq_list(exp)})')
    return items, total, unknown


CHECK = ('fun c : list (list action) * list nat * list (list (slot * Z)) => '
         'let g := run thread_local (start (fst (fst c))) (snd (fst c)) in '
         'let norm := map (fun sv : slot * Z => (fst sv, if snd sv =? 0 then 1 else snd sv)) in '
         '(fix go (i : nat) (l : list (list (slot * Z))) : bool := match l with [] => true | e :: r => obs_eqb (norm (observations g i)) (norm e) && go (S i) r end) 0%nat (snd c)')


def run(rep, tier, rng):
    rep.rule = ('2-3 threads, each building through its own Builder from a different file with a different safe flag (nested and top-level includes, !path, multi-document sources; a syntax '
                'error, a missing include, a !notnew clash as failing inputs); schedules = interleavings at Python line granularity of awesomeyaml code with <= 2 (quick) / <= 3 (thorough) '
                'pre-emptions placed at and around slot-touching and context-handling lines, plus slot-action-granular random interleavings for the machine correspondence. '
                'non-trivial = a schedule that pre-empts inside a parse; distinct = hash of (variant, plan)')
    base.proofs(rep, 'Properties.C20', THEOREMS, deps=['Proofs.FactsOk'])
    for v in VARIANTS:
        pristine(v)
    unknown = [v for v in sched.slot_lines().values() if v[0] == 'Unknown']
    rep.oblige('T1 every line of node.py / errors.py that mentions one of the three slots is one of the recognised slot actions', not unknown, repr(unknown[:3]))
    cases = []
    budget = 40 if tier == 'quick' else 300
    for v in VARIANTS:
        with Sandbox() as sb:
            info = profile(make_works(sb, v))
        rep.count(f'yield points {v}', sum(i['n'] for i in info))
        for p in plans(info, rng, budget, 2 if tier == 'quick' else 3):
            c = dict(variant=v, plan=[list(x) for x in p])
            cases.append(c)
            rep.case(repr(c), True, sample=c if len(cases) % 97 == 1 else None)
    done = set()

    def judge_confirm(c):
        if c['variant'] in done:
            return None
        f = judge(c)
        if f is None:
            return None
        done.add(c['variant'])      # the process may be contaminated from here on: stop exploring this variant, confirm in a fresh interpreter
        f2 = judge_fresh(c)
        if f2 is not None:
            return f2
        f['note'] = 'not reproduced by this plan alone in a fresh interpreter: depends on the schedules run before it in the same process'
        return f
    base.run_oracle(rep, 'C20', 'every thread builds exactly what it builds sequentially (nodes, recorded files, source safety, errors)', cases, judge_confirm)
    items = []
    nact = 0
    for v in VARIANTS:
        it, total, _ = slot_case(v, rng, 12 if tier == 'quick' else 150)
        items += it
        nact += total
    rep.count('slot actions per variant set (traced from the code)', nact)
    bad, errors, wall, cmd = common.run_case_files('thr', HEADER, items, CHECK, shard=60)
    rep.checker_cmds.append(cmd)
    rep.oblige(f'T3 correspondence Model.Threads.run = the values the real code reads at every slot line, on {len(items)} slot-granular interleavings (programs traced from the code)',
               not bad and not errors, (f'{len(bad)} disagreements' if bad else '') + (errors[0]['log'][-500:] if errors else ''))


def replay(data):
    r = data['replay']
    if 'input' in r:
        f = judge(r['input'])
        print('replay:', 'property FAILS' if f else 'property holds', f or '')
        return 1 if f else 0
    print('no input to replay; broken obligations:', r)
    return 1
