"""C04 — !del / list replacement is exact; !merge makes it element-wise; value-less !del removes the key; !clear empties."""
import copy
from .. import common, gen, mergecorr, oracles, t2
from . import base

THEOREMS = ['C04_defaults', 'C04_exact', 'C04_exact_list', 'C04_remove_key', 'C04_clear', 'C04_merge_marks_refine', 'C04_merge_list_elementwise', 'C04_class_checker_sound', 'C04_without_marks_is_plain_update', 'C04_exact_at_any_depth']
PLAIN = gen.PROFILES['plain']


def key_path_only(p):
    return all(not isinstance(c, bool) for c in p)


def wrap_at(path, node):
    """document that places `node` at `path` (int components become mapping keys addressing list indices)"""
    n = node
    for c in reversed(path):
        n = ('map', None, [(c, n)])
    return n


def set_plain(plain, path, value):
    out = copy.deepcopy(plain)
    cur = out
    for c in path[:-1]:
        cur = cur[c]
    cur[path[-1]] = value
    return out


def del_plain(plain, path):
    out = copy.deepcopy(plain)
    cur = out
    for c in path[:-1]:
        cur = cur[c]
    del cur[path[-1]]
    return out


def gen_case(rng):
    """one structured C04 scenario"""
    basedoc = gen.gen_doc(rng, PLAIN, root_tag_ok=False)
    bp = oracles.doc_plain(basedoc)
    paths = [p for p in gen.existing_paths(basedoc) if p]
    if not paths:
        return None
    p = rng.choice(paths)
    target = oracles.node_at(basedoc, p)
    kind = rng.choice(['exact_map', 'exact_list', 'protected', 'merge_list', 'remove_key', 'clear', 'exact_map', 'exact_list', 'weak_element', 'merge_ancestor', 'protected'])
    if kind == 'weak_element':
        # a replacing list that contains a lower-priority element (D18)
        lists = [q for q in paths if oracles.node_at(basedoc, q)[0] == 'seq']
        if not lists:
            return None
        p = rng.choice(lists)
        els = [gen.gen_scalar(rng) for _ in range(rng.randint(1, 3))]
        i = rng.randrange(len(els))
        els[i] = ('sc', '!weak', els[i][2])
        content = ('seq', None, els)
        return dict(kind=kind, base=basedoc, path=list(p), newer=wrap_at(p, content), content=content)
    if kind == 'exact_map':
        content = gen.gen_node(rng, gen.Profile(p_map=1.0, p_seq=0.0, max_depth=1), 0, {})
        content = ('map', '!del', [(k, gen.gen_node(rng, PLAIN, 2, {})) for k, _ in content[2]] or [('a', ('sc', None, '1'))])
        if rng.random() < 0.5 and target[0] == 'map' and target[2]:
            # reuse key names of the older subtree / of its ancestors so that names coincide
            k0 = rng.choice([k for k, _ in target[2]] + [c for c in p if not isinstance(c, int)] or ['a'])
            content = ('map', '!del', content[2] + ([(k0, gen.gen_node(rng, PLAIN, 2, {}))] if k0 not in dict(content[2]) else []))
        return dict(kind=kind, base=basedoc, path=list(p), newer=wrap_at(p, content), content=content)
    if kind == 'exact_list':
        content = ('seq', None, [gen.gen_node(rng, PLAIN, 2, {}) for _ in range(rng.randint(0, 3))])
        return dict(kind=kind, base=basedoc, path=list(p), newer=wrap_at(p, content), content=content)
    if kind == 'merge_list':
        lists = [q for q in paths if oracles.node_at(basedoc, q)[0] == 'seq' and all(c[0] == 'sc' for c in oracles.node_at(basedoc, q)[2])]
        if not lists:
            return None
        p = rng.choice(lists)
        content = ('seq', '!merge', [gen.gen_scalar(rng) for _ in range(rng.randint(0, 4))])
        return dict(kind=kind, base=basedoc, path=list(p), newer=wrap_at(p, content), content=content)
    if kind == 'remove_key':
        cands = [q for q in paths if not isinstance(q[-1], int)]
        if not cands:
            return None
        p = rng.choice(cands)
        return dict(kind=kind, base=basedoc, path=list(p), newer=wrap_at(p, ('sc', '!del', '')))
    if kind == 'clear':
        cands = [q for q in paths if oracles.node_at(basedoc, q)[0] in ('map', 'seq')]
        if not cands:
            return None
        p = rng.choice(cands)
        return dict(kind=kind, base=basedoc, path=list(p), newer=wrap_at(p, ('sc', '!clear', '')))
    if kind == 'protected':
        # older mapping at r: leaves untagged or !force; newer `r: !del {...}`: leaves / sub-mappings untagged or !weak.
        # An older entry is protected iff its priority is strictly higher than that of the newer node at the same relative path
        # (the deepest existing one along it).
        def mk(depth):
            items = []
            for k in rng.sample(gen.KEYS, rng.randint(1, 3)):
                r = rng.random()
                if r < 0.35:
                    items.append((k, ('sc', '!force', rng.choice(['1', '2', 'x']))))
                elif r < 0.7 or depth >= 3:
                    items.append((k, gen.gen_scalar(rng)))
                else:
                    items.append((k, mk(depth + 1)))
            return ('map', None, items)
        older = mk(1)
        basedoc2 = ('map', None, [('r', older), ('b', ('sc', None, '1'))])
        p = ('r',)
        def mk_new(old, depth, tagged_above):
            items = []
            for k, c in old[2]:
                r = rng.random()
                if c[0] == 'map' and r < 0.7:
                    t = '!weak' if (not tagged_above and rng.random() < 0.4) else None
                    sub = mk_new(c, depth + 1, tagged_above or t is not None)
                    items.append((k, ('map', t, sub[2])))
                elif c[0] == 'sc' and r < 0.4:
                    t = '!weak' if (not tagged_above and rng.random() < 0.4) else None
                    items.append((k, ('sc', t, '9')))
            for k in ['n1', 'n2']:
                if rng.random() < 0.5:
                    t = '!weak' if (not tagged_above and rng.random() < 0.3) else None
                    items.append((k, ('sc', t, '7')))
            return ('map', None, items)
        content = mk_new(older, 1, False)
        content = ('map', '!del', content[2])
        return dict(kind=kind, base=basedoc2, path=list(p), newer=wrap_at(p, content), content=content, older=older)
    if kind == 'merge_ancestor':
        lists = [q for q in paths if len(q) >= 2 and oracles.node_at(basedoc, q)[0] == 'seq' and all(c[0] == 'sc' for c in oracles.node_at(basedoc, q)[2])
                 and all(oracles.node_at(basedoc, q[:i])[0] == 'map' for i in range(len(q)))]
        if not lists:
            return None
        p = rng.choice(lists)
        content = ('seq', None, [gen.gen_scalar(rng) for _ in range(rng.randint(1, 4))])
        doc = wrap_at(p, content)
        # put !merge on one of the enclosing mappings (not the list itself)
        depth = rng.randrange(len(p))
        def tag_at(n, d):
            if d == 0:
                return ('map', '!merge', n[2])
            k, c = n[2][0]
            return ('map', n[1], [(k, tag_at(c, d - 1))])
        doc = tag_at(doc, depth)
        return dict(kind=kind, base=basedoc, path=list(p), newer=doc, content=content)
    return None


PRIO = {'!force': 1, '!weak': -1}


def protected_overlay(old, new):
    """expected content of `new` (a deleting subtree) merged over `old`: an older entry survives iff its priority is strictly
    higher than that of the newer node at the same relative path (the deepest existing one); survivors win their conflicts.
    Returns UNSPEC when a newer scalar is written over an older subtree that contains protected entries."""
    UNSPEC = ('unspecified',)

    def rec(o, n, po, pn):
        # o: older node or None; n: newer node or None (then `pn` is the priority of the nearest existing newer ancestor)
        po = PRIO.get(o[1], po) if o is not None else po
        pn_here = PRIO.get(n[1], pn) if n is not None else pn
        if o is None:
            return oracles.doc_plain(n)
        if o[0] == 'sc':
            keep = po > pn_here
            if n is None:
                return oracles.doc_plain(o) if keep else KeyError
            if keep:
                return oracles.doc_plain(o)
            return oracles.doc_plain(n)
        # older mapping
        if n is not None and n[0] != 'map':
            # newer scalar over an older mapping: fine iff nothing below is protected
            def any_prot(x, px):
                px = PRIO.get(x[1], px)
                if x[0] == 'sc':
                    return px > pn_here
                return any(any_prot(c, px) for _, c in x[2])
            return UNSPEC if any_prot(o, po) else oracles.doc_plain(n)
        nd = dict(n[2]) if n is not None else {}
        out = {}
        for k, c in o[2]:
            r = rec(c, nd.get(k), po, pn_here)
            if r is UNSPEC:
                return UNSPEC
            if r is not KeyError:
                out[k] = r
        for k, c in (n[2] if n is not None else []):
            if k not in dict(o[2]):
                out[k] = oracles.doc_plain(c)
        if n is None and not out:
            return KeyError          # nothing protected below: the older mapping is gone
        return out

    r = rec(old, new, 0, 0)
    return None if r is UNSPEC or r is KeyError else r


def unordered(x):
    if isinstance(x, dict):
        return ('d', sorted((repr(k), unordered(v)) for k, v in x.items()))
    if isinstance(x, list):
        return ('l', [unordered(v) for v in x])
    return base.typed(x)


def judge(case):
    texts = [gen.render(case['base']), gen.render(case['newer'])]
    kind, res = oracles.build_plain(texts)
    bp = oracles.doc_plain(case['base'])
    p = tuple(case['path'])
    k = case['kind']
    if kind != 'ok':
        # a mapping addressing a list through an invalid index cannot happen here (paths exist); any error is unexpected
        return dict(unexpected_error=kind, message=res, texts=texts)
    got = oracles.lookup(res, p)
    if k in ('exact_map', 'exact_list', 'weak_element'):
        exp = oracles.doc_plain(case['content'])
        if got is KeyError or base.typed(got) != base.typed(exp):
            return dict(texts=texts, path=list(p), expected=repr(exp), got=repr(got), reason='content at the path is not exactly the newer (deleting) node\'s content')
        frame_exp = set_plain(bp, p, exp)
        if base.typed(res) != base.typed(frame_exp):
            return dict(texts=texts, expected=repr(frame_exp), got=repr(res), reason='something outside the path changed')
    elif k in ('merge_list', 'merge_ancestor'):
        old = oracles.lookup(bp, p)
        new = oracles.doc_plain(case['content'])
        exp = new + old[len(new):]
        if base.typed(got) != base.typed(exp):
            return dict(texts=texts, path=list(p), expected=repr(exp), got=repr(got), reason='!merge list is not combined index-wise')
    elif k == 'remove_key':
        exp = del_plain(bp, p)
        if base.typed(res) != base.typed(exp):
            return dict(texts=texts, expected=repr(exp), got=repr(res), reason='value-less !del did not remove exactly the key')
    elif k == 'clear':
        old = oracles.lookup(bp, p)
        exp = set_plain(bp, p, [] if isinstance(old, list) else {})
        if base.typed(res) != base.typed(exp):
            return dict(texts=texts, expected=repr(exp), got=repr(res), reason='!clear did not leave an empty container of the original kind')
    elif k == 'protected':
        exp = protected_overlay(case['older'], case['content'])
        if exp is None:
            return None
        def has_none(x):
            if x is None:
                return False
            return False
        if unordered(got) != unordered(exp):
            return dict(texts=texts, path=list(p), expected=repr(exp), got=repr(got), reason='protected (strictly higher priority) entries / exact replacement')
    return None


def known_sig(k, failing):
    """D18: the failing scenario is a replacing list that contains an element of lower priority than the list / the content it meets"""
    if k['id'] == 'D18':
        c = failing['input']
        return c['kind'] == 'weak_element' and 'exactly the newer' in failing['failure'].get('reason', '')
    return False


def in_domain(case):
    c = case.get('content')
    if c is not None and c[1] == '!del' and c[0] in ('map', 'seq') and not c[2]:
        return False       # `k: !del {}` is the documented remove-this-key idiom, not a replacement
    return True


def add_merge_tags(n, rng, p=0.35, depth=0):
    t = n[1]
    if n[0] in ('map', 'seq') and t is None and rng.random() < (p if n[0] == 'seq' else p / 3):
        t = '!merge'
    if n[0] == 'map':
        return ('map', t, [(k, add_merge_tags(c, rng, p, depth + 1)) for k, c in n[2]])
    if n[0] == 'seq':
        return ('seq', t, [add_merge_tags(c, rng, p, depth + 1) for c in n[2]])
    return n


def spec_m_corr(rep, rng, n):
    """the SPEC of C04_merge_marks_refine against the implementation: tag-free documents followed by documents whose only tags are !merge
    marks (on lists and mappings, any depth).  The stages are handed to Coq as the trees the real loader built (all raw flags), so the
    class checker newt_b and the decoration mp_of are computed from what the implementation produced; Coq folds Spec.UpdateM.upd_m and
    compares with the data (or MergeError) Builder.build returned.  A disagreement is a concrete failing input of the property."""
    from awesomeyaml import errors
    from .C08 import strip_tags
    from .. import ser
    PL = gen.PROFILES['plain']
    items, shown = [], []
    for _ in range(n):
        docs = [gen.gen_doc(rng, PL, root_tag_ok=False)]
        for _ in range(rng.choice([1, 1, 2])):
            d = strip_tags(gen.related_doc(rng, PL, docs[-1]))
            docs.append(add_merge_tags(d, rng))
        texts = [gen.render(d) for d in docs]
        try:
            b = mergecorr.parse_stages(texts)
            intern = ser.Interner()
            stage_terms = [ser.node_term(st, intern) for st in b.stages]
        except Exception:
            continue
        try:
            got = ('ok', base.to_plain(b.build()))
        except errors.MergeError:
            got = ('merge-error', None)
        except Exception as e:
            got = ('other:' + type(e).__name__, None)
        exp = f'(Some {ser.plain_term(got[1], intern)})' if got[0] == 'ok' else ('None' if got[0] == 'merge-error' else '(Some (PS SNone))')
        items.append(f'({ser.coq_list(stage_terms)}, {exp})')
        shown.append(dict(texts=texts, implementation=got[0]))
        rep.count('!merge spec: implementation ' + got[0].split(':')[0])
    hdr = 'From AY Require Import Model.Eq Spec.Update Spec.UpdateM Proofs.MergeMode.\nOpen Scope Z_scope.\n'
    inclass = 'fun c : list node * option plain => forallb newt_b (fst c)'
    chk = ('fun c : list node * option plain => if forallb newt_b (fst c) then match fst c with [] => true | s0 :: sts => '
           'match fold_left (fun acc o => do a <- acc; upd_m a (mp_of o)) sts (Ok (erase s0)), snd c with Ok r, Some x => plain_eqb r x | Err _ _, None => true | _, _ => false end end else true')
    bad, errors_, wall, cmd = common.run_case_files('c04m', hdr, items, chk, shard=150)
    rep.checker_cmds.append(cmd)
    out, errors2, _, _ = common.run_case_files('c04k', hdr, items, inclass, shard=150)
    rep.count('!merge spec: histories inside the theorem class NewT (judged)', len(items) - len(out))
    rep.count('!merge spec: histories outside the class (not judged)', len(out))
    rep.oblige(f'T3 correspondence fold of Spec.UpdateM.upd_m (decoration and class membership computed from the loaded trees) = Builder.build on {len(items) - len(out)} histories with !merge marks (data or MergeError)',
               not bad and not errors_ and not errors2 and len(items) - len(out) > 0, (f'{len(bad)} disagreements' if bad else '') + (errors_[0]['log'][-400:] if errors_ else ''))
    for i in bad[:3]:
        rep.violation('the implementation differs from the decorated update on documents with !merge marks', dict(oracle='upd_m spec', input=dict(spec=True, **shown[i])))
    rep.extra.setdefault('correspondence', []).append(dict(label='upd_m spec', cases=len(items), in_class=len(items) - len(out), disagreements=len(bad), coq_wall_s=round(wall, 1)))


def text_cases(rng, n):
    """(a) a WHOLE DOCUMENT tagged !del: the result is exactly its content (the merge returns the NEWER root object - every caller must keep what
    the merge returns), directly, followed by a further stage, and as the second document of an included file; (b) replacements that PROMOTE the
    newer node's type (a !call / !path node onto an older plain mapping / list) while older content survives or entries are removed: both views of
    the promoted container must agree with the merged content"""
    out = [dict(text=True, stages=['{a: 1, b: {x: 1, y: 2}, l: [1, 2]}', '!del {c: 3, b: {z: 4}}'], expect={'c': 3, 'b': {'z': 4}}),
           dict(text=True, stages=['{a: 1, b: 2}', '!del {c: 3}', '{d: 4}'], expect={'c': 3, 'd': 4}),
           dict(text=True, stages=['{a: {k: 1}}', '{a: {j: 2}}', '!del {a: {m: 3}}'], expect={'a': {'m': 3}}),
           dict(text=True, stages=['{d: {a: 1, b: 2}}', "{d: !call:vmod.f{{'delete': False}} {b: !del , c: 3}}"], expect={'d': {'a': 1, 'c': 3}}),
           dict(text=True, stages=['{l: [x, y, z]}', "{l: !path:cwd{{'delete': False}} [q]}"], expect={'l': ['q', 'y', 'z']}),
           dict(text=True, stages=['{l: [a, b, !force c]}', '{l: !path [x, y]}'], expect={'l': ['c', 'y']}),
           dict(text=True, stages=['{d: {a: 1, b: !force 2}}', '{d: !bind:vmod.f {c: 3}}'], expect={'d': {'b': 2, 'c': 3}}),
           # (c) a deleting node deletes only when it is NOT outranked by what is there - and what is there includes the outcome of the earlier
           # merges: a !weak container that took a standard-priority key-wise update is a standard-priority node from then on
           dict(text=True, stages=['{a: !weak {x: 1}, b: 0}', "{a: !metadata{{'delete': True, 'priority': -1}} }"], expect={'b': 0}),
           dict(text=True, stages=['{a: {x: 1}}', "{a: !metadata{{'delete': True, 'priority': -1}} }"], expect={'a': {'x': 1}}),
           dict(text=True, stages=['{a: !weak {x: 1}, b: 0}', '{a: {y: 2}}', '{a: !del }'], expect={'b': 0}),
           dict(text=True, stages=['{a: !weak {x: 1}}', '{a: {y: 2}}', "{a: !metadata{{'delete': True, 'priority': -1}} }"], expect={'a': {'x': 1, 'y': 2}}),
           # (d) a replacing list whose element is tagged !merge, met by a !force-protected older element: the survivor and the !merge element
           # combine key-wise / index-wise (the protection covers what the older element holds), the other new elements keep their positions
           dict(text=True, stages=['{a: [{x: 1}, 2]}', '{a: [!merge {y: 5}, 7]}'], expect={'a': [{'y': 5}, 7]}),
           dict(text=True, stages=['{a: [!force {x: 1}, 2]}', '{a: [!merge {y: 5}, 7]}'], expect={'a': [{'x': 1, 'y': 5}, 7]}),
           dict(text=True, stages=['{a: [!force {k: [1, 2, 3]}, 0]}', '{a: [{k: !merge [9, 8, 7, 6]}, 5]}'], expect={'a': [{'k': [1, 2, 3, 6]}, 5]}),
           dict(text=True, stages=['{a: {a: !weak {a: 1}}}', '{a: {a: {b: 2}}}', "{a: {a: !metadata{{'delete': True, 'priority': -1}} }}"], expect={'a': {'a': {'a': 1, 'b': 2}}})]
    for _ in range(n):
        b = gen.gen_doc(rng, PLAIN, root_tag_ok=False)
        d = gen.gen_doc(rng, PLAIN, root_tag_ok=False)
        if not d[2]:
            continue
        out.append(dict(text=True, stages=[gen.render(b), gen.render(('map', '!del', d[2]))], expect=oracles.doc_plain(d)))
    return out


def judge_text(case):
    from .. import ser, evalcorr
    evalcorr.install_vmod()
    kind, root = oracles.build(case['stages'])
    if kind != 'ok':
        return dict(case=case, reason='the build failed', got=kind, message=str(root)[:200])
    try:
        ser.node_term(root, ser.Interner())
    except ser.Inconsistent as e:
        return dict(case=case, reason='after the merge the two stores of a container disagree (stale entries of a promoted node)', detail=str(e)[:200])
    except ValueError:
        pass
    got = base.to_plain(root)
    if unordered(got) != unordered(case['expect']):
        return dict(case=case, reason='the merged content is not exactly what the deleting / promoted node prescribes', got=repr(got)[:300])
    return None


def run(rep, tier, rng):
    rep.rule = ('(a) merge histories over !del/!merge/priority tags (correspondence); (b) structured scenarios: a deleting node (mapping tagged !del, or a list) placed at a random '
                'existing path of a random base document incl. below list indices and with key names reused from ancestors; protected !force entries; !merge lists; value-less !del; !clear. '
                'non-trivial = the older subtree at the path is non-empty; distinct = hash of the two texts')
    base.proofs(rep, 'Properties.C04', THEOREMS, deps=['Proofs.FactsOk'])
    t2.run(rep, ['hpo', 'eff', 'vi'] if tier == 'quick' else ['hpo', 'eff', 'vi', 'ck', 'adopt'], tier)
    n = 400 if tier == 'quick' else 6000
    cases = base.merge_t3(rep, rng, ['del', 'all', 'del'], n, 'del', 2, 4,
                          extra_cases=[("{r: {a: {r: 1, y: 2}}}", "{r: {a: !del {r: !weak 3}}}"), ("{k: {a: !call:f {x: 1}, b: 2}}", "{k: !del {b: 3}}")])
    spec_m_corr(rep, rng, 250 if tier == 'quick' else 4000)
    scen = []
    for _ in range(600 if tier == 'quick' else 10000):
        c = gen_case(rng)
        if c is not None:
            scen.append(c)
    for c in scen:
        rep.count('scenario ' + c['kind'])
        old = oracles.lookup(oracles.doc_plain(c['base']), tuple(c['path']))
        rep.case(gen.render(c['base']) + '\n' + gen.render(c['newer']), old not in ({}, [], KeyError), sample=dict(kind=c['kind'], base=gen.render(c['base']), newer=gen.render(c['newer'])))
    base.run_oracle(rep, 'C04', 'whole documents tagged !del; replacements that promote the node type', text_cases(rng, 40 if tier == 'quick' else 600), judge_text)
    base.run_oracle(rep, 'C04', 'exact replacement / protection / !merge / remove-key / !clear scenarios', scen, judge, in_domain=in_domain, known_sig=known_sig,
                    show=lambda c: dict(kind=c['kind'], base=gen.render(c['base']), newer=gen.render(c['newer']), path=c['path'], case=c))


def replay(data):
    r = data['replay']
    x0 = r.get('input')
    if isinstance(x0, dict) and (x0.get('text') or (isinstance(x0.get('case'), dict) and x0['case'].get('text'))):
        f = judge_text(x0.get('case', x0))
        print('replay:', 'property FAILS' if f else 'property holds', f or '')
        return 1 if f else 0
    if 'input' in r and 'case' in r['input']:
        def tup(x):
            if isinstance(x, list) and len(x) == 3 and x[0] in ('map', 'seq', 'sc'):
                if x[0] == 'map':
                    return ('map', x[1], [(k, tup(c)) for k, c in x[2]])
                if x[0] == 'seq':
                    return ('seq', x[1], [tup(c) for c in x[2]])
                return ('sc', x[1], x[2])
            return x
        c = r['input']['case']
        c = {k: (tup(v) if k in ('base', 'newer', 'content', 'older') else v) for k, v in c.items()}
        f = judge(c)
        print('replay:', 'property FAILS' if f else 'property holds', f or '')
        return 1 if f else 0
    print('no input to replay; broken obligations:', r)
    return 1
