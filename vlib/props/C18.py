"""C18 — dump then parse gives a tree that merges and evaluates the same."""
from .. import common, gen, evalcorr, oracles, ser, mergecorr, dumpcorr, loadcorr
from . import base
from . import C07

THEOREMS = ['C18_content', 'C18_roundtrip_partial', 'C18_substitute_partial', 'C18_dump_fixpoint_partial', 'C18_elision_refuted']
PROFS = ['all', 'notnew', 'func', 'required', 'safe', 'prio', 'priomap', 'ops', 'del']
OPS = ('!append', '!extend', '!prev', '!clear')


def parse1(text, safe=True, filename='<doc>'):
    from awesomeyaml.builder import Builder
    b = Builder()
    b.add_source(text, raw_yaml=True, filename=filename, safe=safe)
    return b.stages


def tagk(n):
    return (n[1] or '').split(':')[0].split('{')[0]


def children(n):
    return [c for _, c in n[2]] if n[0] == 'map' else (n[2] if n[0] == 'seq' else [])


def redundant_mark(n, anc=frozenset()):
    """D13a trigger: an explicit mark equal to the node's type default or to a mark an enclosing node carries"""
    t = tagk(n)
    tag = n[1] or ''
    dyn = tag.startswith('!call') or tag.startswith('!bind')
    here = set()
    if t in ('!del', '!merge', '!new', '!notnew', '!unsafe', '!force', '!weak'):
        here.add(t)
        if t in anc:
            return True
        if t == '!new':
            return True
        if t == '!merge' and n[0] in ('map', 'sc'):
            return True
        if t == '!del' and n[0] == 'seq':
            return True
    if t == '!metadata' and "'priority': 0" in tag:
        return True
    return any(redundant_mark(c, anc | here) for c in children(n))


def has_op(n):
    return tagk(n) in OPS or any(has_op(c) for c in children(n))


def user_metadata(root):
    from .C09 import tree_paths
    return {p: dict(n.ayns.metadata) for p, n in tree_paths(root).items() if n.ayns.metadata}


def outcome(texts, safes=None):
    """merged config (data + user metadata) and its evaluated value"""
    from awesomeyaml.builder import Builder
    from awesomeyaml.config import Config
    from .C10 import canon
    C07.install()
    try:
        b = Builder()
        for i, t in enumerate(texts):
            b.add_source(t, raw_yaml=True, filename=f'<s{i}>', safe=(safes[i] if safes else True))
        root = b.build()
    except Exception as e:
        return (type(e).__name__, None, None, None)
    data = base.typed(base.to_plain(root))
    md = user_metadata(root)
    try:
        val = ('ok', canon(base.with_watchdog(lambda: Config(root))))
    except base.Hang:
        val = ('HANG', None)
    except Exception as e:
        val = (type(e).__name__, None)
    return ('ok', data, sorted((repr(p), repr(sorted(m.items()))) for p, m in md.items()), val)


def judge(case):
    from awesomeyaml import yaml as ayaml
    texts, pos = case['texts'], case['pos']
    try:
        st = parse1(texts[pos], filename=f'<s{pos}>')      # the name the document has inside the merge sequence (a !path:file node records it)
    except Exception:
        return None
    if len(st) != 1:
        return None
    try:
        dumped = ayaml.dump(st[0])
    except Exception as e:
        return dict(texts=texts, pos=pos, kind='dump-fail', reason='a parsed document cannot be dumped', error=type(e).__name__ + ': ' + str(e)[:160])
    try:
        st2 = parse1(dumped, filename=f'<s{pos}>')
    except Exception as e:
        return dict(texts=texts, pos=pos, kind='reparse-fail', reason='the dumped text cannot be parsed back', dumped=dumped, error=type(e).__name__ + ': ' + str(e)[:200])
    if len(st2) != 1:
        return dict(texts=texts, pos=pos, kind='reparse-fail', reason='the dumped text is not one document', dumped=dumped)
    if user_metadata(st[0]) != user_metadata(st2[0]):
        return dict(texts=texts, pos=pos, kind='metadata', reason='the re-parsed document carries different user metadata', dumped=dumped)
    a = outcome(texts)
    b = outcome(texts[:pos] + [dumped] + texts[pos + 1:])
    if a != b:
        what = 'outcome class' if a[0] != b[0] else ('merged data' if a[1] != b[1] else ('metadata' if a[2] != b[2] else 'evaluated value'))
        return dict(texts=texts, pos=pos, kind='not-interchangeable', reason=f'substituting the re-parsed document at position {pos} changes the {what}', dumped=dumped,
                    original=repr(a)[:400], substituted=repr(b)[:400])
    try:
        again = ayaml.dump(st2[0])
    except Exception as e:
        return dict(texts=texts, pos=pos, kind='dump-fail', reason='the re-parsed document cannot be dumped', dumped=dumped, error=str(e)[:160])
    if again != dumped:
        return dict(texts=texts, pos=pos, kind='not-fixpoint', reason='dumping the re-parsed document produces a different text', first=dumped, second=again)
    return None


MARKS = [None, '!del', '!merge', '!force', '!weak', '!new', '!notnew', '!unsafe']


def nesting_product():
    """every mark on a mapping / list x every mark on a mapping / list / scalar / null directly below it, over a base with
    plain, protected (!force) and list content at the same paths"""
    sc = lambda v, t=None: ('sc', t, v)
    inner_content = {
        'map': lambda t: ('map', t, [('x', sc('10')), ('n', sc('11'))]),
        'seq': lambda t: ('seq', t, [sc('10'), sc('11')]),
        'sc': lambda t: sc('12', t),
        'null': lambda t: sc('null' if t is None else '', t) if t in (None, '!del') else sc('null', t),
    }
    old_inner = {'map': ('map', None, [('x', sc('1')), ('y', sc('2')), ('p', sc('3', '!force'))]),
                 'seq': ('seq', None, [sc('1'), sc('2', '!force'), sc('3')]),
                 'sc': sc('4'), 'null': sc('5')}
    out = []
    for ok in ('map', 'seq'):
        for ot in MARKS:
            for ik in ('map', 'seq', 'sc', 'null'):
                for it in MARKS:
                    inner = inner_content[ik](it)
                    if ok == 'map':
                        newer = ('map', None, [('k', ('map', ot, [('a', inner), ('z', sc('9'))]))])
                        base_doc = ('map', None, [('k', ('map', None, [('a', old_inner[ik]), ('q', sc('1')), ('w', sc('7', '!force'))]))])
                    else:
                        newer = ('map', None, [('k', ('seq', ot, [inner, sc('9')]))])
                        base_doc = ('map', None, [('k', ('seq', None, [old_inner[ik], sc('6'), sc('7', '!force')]))])
                    later = ('map', None, [('k', ('map', None, [('a', sc('20')), ('new', sc('21'))]) if ok == 'map' else ('seq', '!merge', [sc('20')]))])
                    for texts, pos in (([base_doc, newer], 1), ([newer, base_doc], 0), ([base_doc, newer, later], 1)):
                        out.append(dict(texts=[gen.render(d) for d in texts], pos=pos, doc=newer, outer=(ok, ot), inner=(ik, it)))
    return out


# floats whose Python repr is not YAML (repaired defect: tagged floats were dumped as repr)
FLOATS = ['1.0e-7', '2.0e+10', '.inf', '-.inf', '.nan', '1.5', '-0.0', '1e3', '6.02e23']
TRICKY = ['x #y', '  lead', 'trail  ', 'a: b', '- x', '[x', '{x', '!tag', '&a', '*a', '#c', 'yes', 'null', '~', '1', '1.5', '0x10', '', ' ', 'multi\nline',
          "it's", '"q"', '@x', '`x', '%x', 'a,b', 'key: v #c', 'x:', ': x', '? x', '| x', '> x', 'tab\tin', 'é', '---', '...', 'a  b', "'", '=', '<<']


def tricky_corpus(rng, n):
    """strings that need quoting, written after tagged scalars / tagged nulls (which are emitted in the unquoted style)"""
    import json
    q = lambda v: json.dumps(v, ensure_ascii=False)
    out = []
    for _ in range(n):
        vals = [rng.choice(TRICKY) for _ in range(5)]
        t1, t2 = rng.choice(['!weak', '!force', '!del', '!merge', '!unsafe']), rng.choice(['!weak', '!force', '!unsafe'])
        doc = ('{first: %s, t: %s 1, s1: %s, l: [%s x, %s, %s], n: !del , after: %s, m: {k: %s %s, %s: 2}}'
               % (q(vals[0]), t1, q(vals[1]), t2, q(vals[2]), q(vals[3]), q(vals[4]), t2, q(vals[0]), q(vals[1] or 'e')))
        base_doc = '{first: 0, s1: old, l: [1, 2, 3], n: 5, m: {k: 1}}'
        fl = [rng.choice(FLOATS) for _ in range(3)]
        fdoc = '{f1: %s %s, f2: %s, l: [%s %s, 1], m: {k: %s %s}}' % (t1 if t1 != '!del' else '!weak', fl[0], fl[1], t2, fl[2], t2, fl[0])
        out.append(dict(texts=[base_doc, fdoc], pos=1))
        out.append(dict(texts=[base_doc, doc], pos=1))
        out.append(dict(texts=[doc, '{after: !weak z, extra: 1}'], pos=0))
    return out


def dyn_corpus(rng, n):
    """shapes the document grammar does not produce: containers carrying TWO marks (written as one :hex tag) followed in document order
    by unrelated nodes with the same mark; !call / !bind with flags and metadata; !path nodes with dynamic or marked components"""
    PR = [('!force', 1), ('!weak', -1)]
    out = []
    for _ in range(n):
        (t1, p1), (t2, p2) = rng.choice(PR), rng.choice(PR)
        note = rng.choice(['tuned', 'x y', '1'])
        two = rng.choice([
            "!metadata{{'priority': %d, 'note': '%s'}} {p: 1, q: [1, 2]}" % (p1, note),
            "!metadata{{'priority': %d, 'note': '%s'}} [1, {p: 2}]" % (p1, note),
            "!call:vmod.f{{'priority': %d}} {p: 1, q: [1, 2]}" % p1,
            "!bind:vmod.g{{'priority': %d, 'note': '%s'}} {p: 1}" % (p1, note),
            "!del{{'priority': %d}} {p: 1}" % p1,
            "!metadata{{'delete': True, 'note': '%s'}} {p: 1}" % note,
        ])
        sib = rng.choice(['%s 2' % t1, '%s 2' % t2, '!del {z: 1}', '%s [5]' % t1, "!metadata{{'note': '%s'}} 2" % note])
        cousin = rng.choice(['{d: [%s 3, 4]}' % t1, '{d: [%s 3, 4], e: %s {f: 1}}' % (t2, t1), '[%s {g: 1}, 2]' % t1])
        pathn = rng.choice([
            '!path:cwd [runs, !xref name]', '!path:cwd [runs, logs]', '!path:file [x, %s y]' % t1, '!path:abs(/tmp) [!xref name, out]',
            '!path:parent(1) [cfg, !xref name]', "!path:cwd{{'priority': %d}} [runs, !xref name]" % p1,
        ])
        twice = rng.choice(['!del {seed: , resume: , lr: 1}', '!call:vmod.f {p: , q: }', '[&n !null , 1, *n]', '{x: &r !required , y: *r}', '!weak {u: , v: , w: }'])
        ents = [('a', two), ('b', sib), ('c', cousin), ('root', pathn), ('name', 'exp1'), ('t2', twice)]
        if rng.random() < 0.6:
            rng.shuffle(ents)
        doc = '{' + ', '.join(f'{k}: {v}' for k, v in ents) + '}'
        base_doc = '{a: {p: 0, q: [0]}, b: 0, c: {d: [0, 0]}, name: old, root: none, t2: {seed: 5, x: 1}}'
        later = '{a: {p: 10}, b: 20, c: {d: !merge [30]}, name: exp2, t2: {x: 2}}'
        out.append(dict(texts=[base_doc, doc], pos=1))
        out.append(dict(texts=[doc, later], pos=0))
        out.append(dict(texts=[base_doc, doc, later], pos=1))
    return out


def known_sig(k, failing):
    from ..reparse import parse_doc
    f = failing['failure']
    case = failing['input']
    doc = case.get('doc')
    if doc is None:
        doc = parse_doc(case['texts'][case['pos']])
    kind = f.get('kind')
    if k['id'] == 'D13a':
        return kind in ('not-interchangeable', 'not-fixpoint') and redundant_mark(doc)
    if k['id'] == 'D13b':
        return kind in ('reparse-fail', 'dump-fail') and has_op(doc)
    return False


def run(rep, tier, rng):
    rep.rule = ('documents over the full tag vocabulary (priority / !del / !merge / !new / !notnew / !unsafe marks, !metadata, tagged and value-less nulls, !call / !bind / !required / '
                'references, list operators) inside merge histories of 2-3 documents; each document is parsed, dumped, parsed back, substituted at its position, the merged config, its user '
                'metadata and its evaluated value compared, and dumped again. non-trivial = the substituted document carries >= 1 tag; distinct = hash')
    C07.install()
    base.proofs(rep, 'Properties.C18', THEOREMS, deps=['Proofs.FactsOk'])
    n = 400 if tier == 'quick' else 6000
    # correspondence of the dump model on trees of plain kinds (all raw flags -> emitted tags), safe and unsafe sources
    items, texts = [], []
    errs = 0
    for _ in range(n):
        d = gen.gen_doc(rng, loadcorr.LOAD_PROFILE)
        r = dumpcorr.run_case(gen.render(d), safe=rng.random() < 0.8)
        if not r['ok']:
            rep.count('dump correspondence: skipped ' + r['why'])
            continue
        items.append(r['term'])
        texts.append(r['text'])
        errs += r.get('dumped') is None
        for t, c in gen.tag_hist(d).items():
            rep.count('tag ' + t, c)
    bad, errors, wall, cmd = common.run_case_files('dump', dumpcorr.HEADER, items, dumpcorr.CHECK)
    rep.checker_cmds.append(cmd)
    rep.count('dump correspondence: implementation raised', errs)
    rep.oblige(f'T3 correspondence Model.Dump.dump_doc = tagged graph of awesomeyaml.yaml.dump on {len(items)} parsed documents (every emitted / elided mark and metadata entry)',
               not bad and not errors, (f'{len(bad)} disagreements, first: {[texts[i] for i in bad[:3]]}' if bad else '') + (errors[0]['log'][-500:] if errors else ''))
    # ... and of the loader model on the dumped text (the other half of reparse)
    items2 = []
    for t in texts[:len(texts) // 2]:
        try:
            from awesomeyaml import yaml as ayaml
            dumped = ayaml.dump(parse1(t)[0])
            import yaml as pyyaml
            intern = ser.Interner()
            y = dumpcorr.ynode_of(pyyaml.compose(dumped, Loader=pyyaml.SafeLoader), intern)
            b = mergecorr.parse_stages([dumped], [True])
            items2.append(f'((mkLC (Some true) {intern("<s0>")}), {y}, {ser.node_term(b.stages[0], intern)})')
        except Exception:
            rep.count('reload correspondence: skipped')
    bad, errors, wall, cmd = common.run_case_files('reload', loadcorr.HEADER, items2, loadcorr.CHECK)
    rep.checker_cmds.append(cmd)
    rep.oblige(f'T3 correspondence Model.Loader.load_doc = parse on {len(items2)} DUMPED texts (incl. !metadata:<hex> and !null:<hex> forms)', not bad and not errors,
               (f'{len(bad)} disagreements' if bad else '') + (errors[0]['log'][-500:] if errors else ''))
    cases = []
    m = 350 if tier == 'quick' else 6000
    for i in range(m):
        prof = gen.PROFILES[PROFS[i % len(PROFS)]]
        docs = gen.gen_history(rng, prof, 2, 3)
        tx = [gen.render(d) for d in docs]
        for pos in ([rng.randrange(len(tx))] if tier == 'quick' else range(len(tx))):
            cases.append(dict(texts=tx, pos=pos, doc=docs[pos]))
            rep.case('\n'.join(tx) + f'@{pos}', bool(gen.tag_hist(docs[pos])), sample=dict(texts=tx, pos=pos) if len(cases) < 4 else None)
    # deterministic representatives of the known findings and of repaired defects
    for tx, pos in [(["{a: [[x], !weak 7]}", "!weak {a: !weak [!merge {}, {b: 7}]}"], 1), (["{a: {l: [true]}}", "!merge {a: {l: []}}"], 1), (["{c: 1}", "{c: !del }"], 1), (["{c: [1]}", "{c: !weak null, d: !force }"], 1),
                    (["{l: [1]}", "{l: !append [2]}"], 1), (["{l: [1]}", "!weak {l: !append [2]}"], 1)]:
        cases.append(dict(texts=tx, pos=pos))
    base.run_oracle(rep, 'C18', 'dump / parse / substitute / evaluate / dump again', cases, judge, known_sig=known_sig, show=lambda c: dict(texts=c['texts'], pos=c['pos']))
    base.run_oracle(rep, 'C18', 'strings that need quoting after tagged scalars', tricky_corpus(rng, 60 if tier == 'quick' else 1500), judge, known_sig=known_sig)
    base.run_oracle(rep, 'C18', 'doubly-marked containers followed by equally-marked nodes; !call / !bind with flags; !path with dynamic / marked components',
                    dyn_corpus(rng, 40 if tier == 'quick' else 1000), judge, known_sig=known_sig)
    prod = nesting_product()
    if tier == 'quick':
        prod = rng.sample(prod, 500)
    base.run_oracle(rep, 'C18', 'two-level nesting product: every mark on a container x every mark on the node below it', prod, judge, known_sig=known_sig,
                    show=lambda c: dict(texts=c['texts'], pos=c['pos']))


def replay(data):
    r = data['replay']
    if 'input' in r:
        f = judge(r['input'])
        print('replay:', 'property FAILS' if f else 'property holds', f or '')
        return 1 if f else 0
    print('no input to replay; broken obligations:', r)
    return 1
