"""C07 — unsafe content never reaches executed code, whatever is merged around it."""
import sys, types
import os
from .. import common, gen, evalcorr, oracles, mergecorr, t2
from . import base
from .C09 import tree_paths

THEOREMS = ['C07_gate', 'C07_no_unsafe_execution', 'C07_arguments_checked_first', 'C07_merge_spreads_unsafety', 'C07_container_flags_spread', 'C07_inherited_mark_sticky']
NF = 12     # number of distinct recording targets vmod.u0 .. vmod.u11
EXEC = []   # (target name, positional, keyword) of every executed call


def install():
    m = evalcorr.install_vmod()
    if hasattr(m, 'u0'):
        return m
    for i in range(NF):
        def mk(i):
            def u(*args, **kwargs):
                EXEC.append(('vmod.u%d' % i, args, kwargs))
                evalcorr.CALL_LOG.append('vmod.u%d' % i)
                return evalcorr.Rec('vmod.u%d' % i, args, kwargs)
            u.__name__ = 'u%d' % i
            u.__module__ = 'vmod'
            return u
        setattr(m, 'u%d' % i, mk(i))
        evalcorr.SIGS['vmod.u%d' % i] = []
    return m


# ---------------------------------------------------------------- generator: every leaf is a unique marker, every call has its own target

class G:
    def __init__(self, rng):
        self.rng = rng
        self.val = 100
        self.fn = 0

    def leaf(self):
        self.val += 1
        return ('sc', None, str(self.val))

    def target(self):
        f = 'vmod.u%d' % (self.fn % NF)
        self.fn += 1
        return f

    def node(self, depth):
        r = self.rng.random()
        if depth >= 3 or r < 0.4:
            return self.leaf()
        if r < 0.55:
            return ('seq', None, [self.node(depth + 1) for _ in range(self.rng.randint(1, 2))])
        if r < 0.8:
            keys = self.rng.sample(['a', 'b', 'c', 'x'], self.rng.randint(1, 3))
            return ('map', None, [(k, self.node(depth + 1)) for k in keys])
        kind = self.rng.choice(['!call', '!call', '!bind'])
        keys = self.rng.sample(['x', 'y', 0], self.rng.randint(0, 2))
        return ('map', f'{kind}:{self.target()}', [(k, self.node(depth + 1)) for k in keys])

    def doc(self):
        keys = self.rng.sample(['a', 'b', 'c', 'd', 'e'], self.rng.randint(2, 4))
        return ('map', None, [(k, self.node(1)) for k in keys])


def add_refs_and_marks(doc, rng, p_ref=0.25, p_unsafe=0.12):
    paths = [p for p in gen.existing_paths(doc) if p and not isinstance(p[0], int)]

    def go(n, here):
        if n[0] == 'sc' and n[1] is None and paths and rng.random() < p_ref:
            tp = rng.choice(paths)
            if tp != here and tp[:len(here)] != here and here[:len(tp)] != tp:
                return ('sc', '!xref', '"' + gen.render_path(tp) + '"')
        tag = n[1]
        if tag is None and rng.random() < p_unsafe:
            tag = '!unsafe'
        if n[0] == 'map':
            return ('map', tag, [(k, go(c, here + (k,))) for k, c in n[2]])
        if n[0] == 'seq':
            return ('seq', tag, [go(c, here + (i,)) for i, c in enumerate(n[2])])
        return ('sc', tag, n[2])
    return go(doc, ())


def gen_case(rng):
    g = G(rng)
    docs = [add_refs_and_marks(g.doc(), rng)]
    safes = [True]
    for _ in range(rng.randint(0, 2)):
        base_doc = rng.choice(docs)
        # a later stage touching the same paths: argument overrides, function-name overrides, placeholders, deletions
        def mut(n, depth):
            r = rng.random()
            if n[0] == 'map':
                items = []
                for k, c in n[2]:
                    q = rng.random()
                    if q < 0.45:
                        continue
                    items.append((k, mut(c, depth + 1)))
                tag = n[1] if (n[1] and n[1].startswith(('!call', '!bind')) and rng.random() < 0.6) else None
                if n[1] and n[1].startswith(('!call', '!bind')) and rng.random() < 0.2:
                    return ('sc', None, g.target())                  # function-name override by a string
                if tag is None and depth > 0 and rng.random() < 0.15:
                    tag = '!del'
                    if not items:
                        items = [('x', g.leaf())]
                return ('map', tag, items)
            if n[0] == 'seq':
                return ('seq', None, [g.leaf() for _ in range(rng.randint(1, 2))])
            return g.leaf() if r < 0.8 else ('map', f'!call:{g.target()}', [('x', g.leaf())])
        d = mut(base_doc, 0)
        d = ('map', None, d[2] or [('a', g.leaf())])
        if rng.random() < 0.3:
            d = add_refs_and_marks(d, rng, p_ref=0.0, p_unsafe=0.1)
        docs.append(d)
        safes.append(rng.random() < 0.55)
    if rng.random() < 0.25:
        safes[0] = False
    return dict(docs=docs, safes=safes)


# ---------------------------------------------------------------- oracle

def unsafe_markers(root):
    """marker values of all scalar leaves of the merged tree that are not safe"""
    from awesomeyaml.nodes.scalar import ConfigScalarMarker
    out = set()
    for p, n in tree_paths(root).items():
        if isinstance(n, ConfigScalarMarker) and not n.ayns.safe:
            try:
                v = n._get_native_value()
            except Exception:
                continue
            if isinstance(v, int) and not isinstance(v, bool) and v > 100:
                out.add(v)
    return out


def contains(v, markers, seen=None):
    import functools
    seen = set() if seen is None else seen
    if id(v) in seen:
        return None
    seen.add(id(v))
    if isinstance(v, bool):
        return None
    if isinstance(v, int):
        return v if v in markers else None
    if isinstance(v, evalcorr.Rec):
        return contains(list(v.args), markers, seen) or contains(v.kwargs, markers, seen)
    if isinstance(v, functools.partial):
        return contains(list(v.args), markers, seen) or contains(v.keywords, markers, seen)
    if isinstance(v, dict):
        for a in v.values():
            r = contains(a, markers, seen)
            if r:
                return r
    if isinstance(v, (list, tuple)):
        for a in v:
            r = contains(a, markers, seen)
            if r:
                return r
    return None


def origin_unsafe_targets(docs, safes):
    """targets (function names) that were WRITTEN by unsafe content: in a safe=False source, or at/below an !unsafe node of their document"""
    import re
    out, safe_origin = set(), set()
    def walk(n, unsafe):
        u = unsafe or n[1] == '!unsafe'
        names = []
        if n[1] and n[1].startswith(('!call:', '!bind:')):
            names.append(n[1].split(':', 1)[1])
        if n[0] == 'sc' and re.fullmatch(r'vmod\.u\d+', n[2] or ''):
            names.append(n[2])
        for nm in names:
            (out if u else safe_origin).add(nm)
        cs = [c for _, c in n[2]] if n[0] == 'map' else (n[2] if n[0] == 'seq' else [])
        for c in cs:
            walk(c, u)
    for d, sf in zip(docs, safes):
        walk(d, not sf)
    return out - safe_origin


def taint_kind(cp, target, markers, marker=None):
    """how did an unsafe marker reach the call? 'direct' = through a reference whose target node is itself unsafe (or an unsafe argument);
    'nested' = only through references to nodes that are themselves safe but hold unsafe entries (known finding D21)"""
    from awesomeyaml.nodes.function import FunctionNode
    from awesomeyaml.nodes.xref import XRefNode
    from .C09 import final_target
    nodes = tree_paths(cp)
    kinds = set()
    for p, n in nodes.items():
        if isinstance(n, FunctionNode) and str(n._func) == target:
            for q, m in nodes.items():
                if len(q) > len(p) and q[:len(p)] == p:
                    if isinstance(m, XRefNode):
                        tq = final_target(nodes, q)
                        if tq is not None and tq in nodes:
                            kinds.add('direct' if not nodes[tq].ayns.safe else 'nested')
                    elif not m.ayns.safe:
                        # an unsafe node inside the call's own argument subtree: D21's mechanism applies when a SAFE container between
                        # the call and that node is the target of a reference outside the call (so it was evaluated and cached before)
                        if marker is not None and hasattr(m, '_dyn_base') and m._get_native_value() != marker:
                            continue
                        cached = False
                        for x, xn in nodes.items():
                            if isinstance(xn, XRefNode) and x[:len(p)] != p:
                                tx = final_target(nodes, x)
                                if tx is not None and tx in nodes and len(p) < len(tx) < len(q) and q[:len(tx)] == tx and nodes[tx].ayns.safe:
                                    cached = True
                        kinds.add('nested' if cached else 'direct')
    return 'direct' if 'direct' in kinds else 'nested'


def judge(case):
    from awesomeyaml.config import Config
    from awesomeyaml.nodes.function import FunctionNode
    install()
    texts = [gen.render(d) for d in case['docs']]
    k, root = oracles.build(texts, case['safes'])
    if k != 'ok':
        return None
    nodes = tree_paths(root)
    # deepcopy re-derives inherited marks from the ancestors: judge safety on the copy that is evaluated
    import copy
    cp = copy.deepcopy(root)
    cnodes = tree_paths(cp)
    unsafe_targets = set(str(n._func) for p, n in cnodes.items() if isinstance(n, FunctionNode) and not n.ayns.safe)
    safe_targets = set(str(n._func) for p, n in cnodes.items() if isinstance(n, FunctionNode) and n.ayns.safe)
    markers = unsafe_markers(cp)
    del EXEC[:]
    try:
        cfg = base.with_watchdog(lambda: Config(root))
        kind = 'ok'
    except base.Hang:
        return dict(texts=texts, safes=case['safes'], reason='evaluation does not terminate')
    except RecursionError:
        kind = 'EEval'
    except Exception as e:
        kind = evalcorr.err_kind(e)
        if kind == 'EEval' and evalcorr.has_unsafe_cause(e):
            kind = 'EUnsafe'
    executed = [f for f, _, _ in EXEC]
    bad = [f for f in executed if f in unsafe_targets and f not in safe_targets]
    if bad:
        return dict(texts=texts, safes=case['safes'], reason='a function was called on behalf of an unsafe !call/!bind node', executed=bad)
    origin = origin_unsafe_targets(case['docs'], case['safes'])
    bad = [f for f in executed if f in origin]
    if bad:
        return dict(texts=texts, safes=case['safes'], reason='a function whose name was written by unsafe content was called (merging must never remove unsafety)', executed=bad)
    for f, a, kw in EXEC:
        m = contains(list(a), markers) or contains(kw, markers)
        if m:
            return dict(texts=texts, safes=case['safes'], reason='a value originating from unsafe content was passed to a call', target=f, marker=m,
                        taint=taint_kind(cp, f, markers, m))
    if unsafe_targets - safe_targets and kind == 'ok':
        return dict(texts=texts, safes=case['safes'], reason='the merged tree holds an unsafe dynamic node, yet the build succeeded', unsafe=sorted(unsafe_targets - safe_targets))
    return None


def gen_ref_case(rng):
    """an unsafe value and a call that references it: both key orders, chains, unsafe by tag / by source / by a later overriding stage"""
    g = G(rng)
    how = rng.choice(['tag', 'source', 'override', 'fname_override', 'safe_after_unsafe'])
    chain = rng.random() < 0.4
    ref = '!xref mid' if chain else '!xref lr'
    call = f"opt: !call:{g.target()} {{lr: {ref}}}"
    mid = ['mid: !xref lr'] if chain else []
    if how == 'tag':
        items = ['lr: !unsafe 105'] + mid + [call]
        rng.shuffle(items)
        return dict(docs_text=['{' + ', '.join(items) + '}'], safes=[True])
    if how == 'source':
        items = ['lr: 105'] + mid
        return dict(docs_text=['{' + ', '.join(items) + '}', '{' + call + '}'], safes=[False, True])
    if how == 'override':
        items = ['lr: 1'] + mid + [call]
        rng.shuffle(items)
        return dict(docs_text=['{' + ', '.join(items) + '}', rng.choice(['{lr: 105}', '{lr: !unsafe 105}'])], safes=[True, rng.random() < 0.5] if False else [True, False])
    if how == 'fname_override':
        t_safe, t_unsafe = g.target(), g.target()
        return dict(docs_text=[f'{{f: !call:{t_safe} {{x: 1}}}}', f'{{f: {t_unsafe}}}', rng.choice(['{f: {x: 2}}', '{k: 1}', '{f: !del {y: 3}}'])], safes=[True, False, True])
    t = g.target()
    later = rng.choice(['{f: {x: 2}}', '{f: !del {y: 3}}', '{f: {}}', '{f: !force {z: 1}}'])
    return dict(docs_text=[f'{{f: !{rng.choice(["call", "bind"])}:{t} {{}}}}', later], safes=[False, True])


def known_sig(kf, failing):
    """D21: the tainted value sits inside a container that is itself safe and was evaluated (cached) before the call referencing it"""
    if kf['id'] == 'D21':
        f = failing['failure']
        return f.get('taint') == 'nested'
    return False


def rec_cases():
    """!rec: every entry names a file that is built at evaluation time with THAT ENTRY's safety"""
    out = []
    for variant in ('entry_unsafe', 'appended_by_unsafe_source', 'unsafe_first', 'below_unsafe', 'all_safe'):
        out.append(dict(rec=True, variant=variant))
    return out


def judge_rec(case):
    from awesomeyaml.builder import Builder
    from awesomeyaml.config import Config
    from .C06 import Sandbox
    install()
    v = case['variant']
    with Sandbox() as sb:
        basef = sb.write('d/base.yaml', 'name: base\nlevel: 1\n')
        plugin = sb.write('d/plugin.yaml', 'level: 2\nhook: !call:vmod.u9 {origin: 7}\n')
        stages = {'entry_unsafe': [(f'ext: !rec ["{basef}", !unsafe "{plugin}"]', True)],
                  'appended_by_unsafe_source': [(f'ext: !rec ["{basef}"]', True), (f'ext: !append ["{plugin}"]', False)],
                  'unsafe_first': [(f'ext: !rec ["{plugin}"]', False), (f'ext: !append ["{basef}"]', True)],
                  'below_unsafe': [(f'!unsafe\next: !rec ["{basef}", "{plugin}"]', True)],
                  'all_safe': [(f'ext: !rec ["{basef}", "{plugin}"]', True)]}[v]
        del EXEC[:]
        try:
            b = Builder()
            for i, (t, sf) in enumerate(stages):
                b.add_source(t, raw_yaml=True, filename=os.path.join(sb.dir, f'stage{i}.yaml'), safe=sf)
            Config(b.build())
            kind = 'ok'
        except Exception as e:
            kind = 'EUnsafe' if evalcorr.has_unsafe_cause(e) else evalcorr.err_kind(e)
            msg = str(e)[:200]
    executed = [f for f, _, _ in EXEC]
    if v == 'all_safe':
        if kind != 'ok' or executed != ['vmod.u9']:
            return dict(case=case, reason='control: a !call in a file named by a safe !rec entry must run once', got=kind, executed=executed)
        return None
    if executed:
        return dict(case=case, reason='a !call from a file named by an UNSAFE !rec entry was executed', executed=executed)
    if kind != 'EUnsafe':
        return dict(case=case, reason='expected an UnsafeError', got=kind)
    return None


LEAF_NODES = {'eval': '!eval "__import__(\'vmod\').u0(%d)"', 'fstr': '!fstr "f\'{__import__(\\"vmod\\").u1(%d)}\'"', 'import': '!import vmod.u2'}


def leaf_cases():
    """the dynamic LEAF kinds (!eval, f-string, !import) at every origin of unsafety the property lists; the safe twin must run"""
    out = []
    for kind in LEAF_NODES:
        for place in ('safe', 'mark_map', 'mark_list', 'mark_deep', 'mark_root', 'source', 'later_unsafe_stage', 'overridden_by_unsafe_stage', 'unsafe_then_safe_stage', 'unsafe_argument_of_safe_call'):
            out.append(dict(leaf=True, kind=kind, place=place))
    return out


def judge_leaf(case):
    from awesomeyaml.builder import Builder
    from awesomeyaml.config import Config
    install()
    X = LEAF_NODES[case['kind']]
    x1, x2 = (X % 1, X % 2) if '%d' in X else (X, X)
    stages = {'safe': [('{a: {k: %s}}' % x1, True)],
              'mark_map': [('{a: !unsafe {k: %s}}' % x1, True)],
              'mark_list': [('{a: [1, !unsafe {k: %s}]}' % x1, True)],
              'mark_deep': [('{a: !unsafe {m: {n: [%s]}}}' % x1, True)],
              'mark_root': [('!unsafe {a: {k: %s}}' % x1, True)],
              'source': [('{a: {k: %s}}' % x1, False)],
              'later_unsafe_stage': [('{a: {j: 1}}', True), ('{a: {k: %s}}' % x1, False)],
              'overridden_by_unsafe_stage': [('{a: {k: %s}}' % x1, True), ('{a: {k: %s}}' % x2, False)],
              'unsafe_then_safe_stage': [('{a: {k: %s}}' % x1, False), ('{b: 1, a: {j: 2}}', True)],
              'unsafe_argument_of_safe_call': [('{a: !call:vmod.u5 {k: !xref b.k}, b: !unsafe {k: %s}}' % x1, True)]}[case['place']]
    del EXEC[:]
    try:
        b = Builder()
        for i, (t, sf) in enumerate(stages):
            b.add_source(t, raw_yaml=True, filename=f'<s{i}>', safe=sf)
        cfg = Config(b.build())
        kind = 'ok'
    except Exception as e:
        kind = 'EUnsafe' if evalcorr.has_unsafe_cause(e) else evalcorr.err_kind(e)
    executed = [f for f, _, _ in EXEC]
    if case['place'] == 'safe':
        want = [] if case['kind'] == 'import' else ['vmod.u0' if case['kind'] == 'eval' else 'vmod.u1']
        if kind != 'ok' or executed != want:
            return dict(case=case, reason='control: the safe twin must evaluate (and run its code once)', got=kind, executed=executed)
        return None
    if executed:
        return dict(case=case, reason='code was evaluated on behalf of an unsafe node', executed=executed)
    if kind != 'EUnsafe':
        return dict(case=case, reason='an unsafe %s node was evaluated: expected an UnsafeError' % case['kind'], got=kind)
    return None


def gen_name_case(rng):
    """a value from unsafe content read BY NAME from evaluated code (!eval, f-string), in both key orders and through a nested name"""
    mark = rng.choice(['!unsafe 2', '!unsafe {k: 2}', '!unsafe [1, 2]'])
    reader = rng.choice(['!eval "bar"', '!fstr "v{bar}"', '!eval "[bar, 1]"', '!eval "len(str(bar))"'])
    nested = rng.random() < 0.4
    if nested:
        ents = [('box', '{bar: %s, ok: 1}' % mark), ('foo', reader.replace('bar', 'box.bar'))]
    else:
        ents = [('bar', mark), ('foo', reader)]
    extra = ('z', '0')
    layouts = []
    for order in ([0, 1], [1, 0]):
        e2 = [ents[i] for i in order] + [extra]
        layouts.append('{' + ', '.join(f'{k}: {v}' for k, v in e2) + '}')
    return dict(names=True, layouts=layouts, nested=nested)


def run(rep, tier, rng):
    rep.rule = ('1-3 stage configs in which every leaf is a unique marker value and every !call/!bind has its own recording target; random !unsafe marks at any level, random safe=False '
                'sources, references from call arguments to data, later stages overriding arguments / function names / deleting; non-trivial = at least one unsafe mark or unsafe source '
                'and one dynamic node; distinct = hash')
    install()
    base.proofs(rep, 'Properties.C07', THEOREMS, deps=['Proofs.FactsOk'])
    t2.run(rep, ['repl', 'eff', 'ck'] if tier == 'quick' else ['repl', 'eff', 'ck', 'adopt', 'prop'], tier)
    n = 400 if tier == 'quick' else 6000
    base.merge_t3(rep, rng, ['safe'], n // 2, 'safe', 2, 4)
    cases, hangs = base.eval_t3(rep, rng, n, dict(unsafe=0.1, named=False, cycles=False), 'unsafe', with_safes=True,
                                extra=[["{d: 5, x: !call:vmod.f {a: !xref d}}"], ["{x: !call:vmod.f {a: !xref d}, d: !unsafe 5}"]])
    scen = [gen_case(rng) for _ in range(500 if tier == 'quick' else 8000)]
    # the defects repaired by ccfcebf / f663963 as corpus
    from ..reparse import parse_doc
    scen.append(dict(docs=[parse_doc("{f: !required }"), parse_doc("{f: !call vmod.u1}")], safes=[True, False]))
    scen.append(dict(docs=[parse_doc("{d: 105}"), parse_doc("{x: !call:vmod.u2 {a: !xref d}}")], safes=[False, True]))
    # D21 (known finding): an unsafe entry inside a safe container evaluated before the call that references the container
    scen.append(dict(docs=[parse_doc("{d: {x: !unsafe 105}, c: !call:vmod.u3 {a: !xref d}}")], safes=[True]))
    scen.append(dict(docs=[parse_doc("{d: [101, !unsafe 105], c: !call:vmod.u3 [!xref d]}")], safes=[True]))
    # an unsafe dynamic node MOVED (by !prev, or through a mapping addressing a list index) below a safe parent that re-propagates inherited flags:
    # the inherited unsafety must survive although the !unsafe marker is no longer above the node
    for tgt, wrap in (('vmod.u4', '[{name: first, hook: !prev plugins.hook}]'), ('vmod.u5', '{k: [!prev plugins.hook, 1]}'), ('vmod.u6', '!del {m: {hook: !prev plugins.hook}}')):
        scen.append(dict(docs=[parse_doc("{plugins: !unsafe {hook: !call:%s {x: 1}, o: 2}, z: 0}" % tgt), parse_doc("{jobs: %s}" % wrap)], safes=[True, True]))
    scen.append(dict(docs=[parse_doc("{jobs: [{name: first, opts: {a: 1}}]}"), parse_doc("{jobs: !unsafe {0: {hook: !call:vmod.u7 {x: 1}}}}")], safes=[True, True]))
    for _ in range(150 if tier == 'quick' else 1500):
        c = gen_ref_case(rng)
        scen.append(dict(docs=[parse_doc(t) for t in c['docs_text']], safes=c['safes']))
    for c in scen:
        t = '\n'.join(gen.render(d) for d in c['docs'])
        rep.case(t + repr(c['safes']), ('!unsafe' in t or not all(c['safes'])) and ('!call' in t or '!bind' in t),
                 sample=dict(docs=[gen.render(d) for d in c['docs']], safes=c['safes']))
    from .. import scenrun
    nm = [gen_name_case(rng) for _ in range(30 if tier == 'quick' else 300)]
    flat = [dict(texts=[l], probes=['plain(cfg)']) for c in nm for l in c['layouts']]
    it = iter(scenrun.run_batch(flat))
    for c in nm:
        c['res'] = [next(it) for _ in c['layouts']]

    def judge_names(c):
        for l, r in zip(c['layouts'], c['res']):
            if r['kind'] == 'ok':
                # D21's mechanism: the name denotes a SAFE container that was evaluated (cached) before the reader; the unsafe entry is then plain attribute access
                first = l.index('box:') < l.index('foo:') if c.get('nested') else False
                return dict(text=l, reason='a value originating from unsafe content was resolved as a name by evaluated code (the build must fail with UnsafeError, in every key order)',
                            result=r.get('probes'), taint='nested' if (c.get('nested') and first) else 'direct')
            if not r.get('unsafe_cause'):
                return dict(text=l, reason='expected an UnsafeError', got=r['kind'], err=r.get('err'))
        return None
    base.run_oracle(rep, 'C07', '!rec entries are loaded with their own safety', rec_cases(), judge_rec)
    base.run_oracle(rep, 'C07', 'unsafe !eval / f-string / !import nodes are refused, whatever the origin of the unsafety', leaf_cases(), judge_leaf)
    base.run_oracle(rep, 'C07', 'unsafe data read by name from !eval / f-string code, both key orders (repaired defect)', nm, judge_names, known_sig=known_sig, show=lambda c: dict(names=True, layouts=c['layouts']))
    base.run_oracle(rep, 'C07', 'no unsafe node executed, no unsafe value passed to a call', scen, judge, known_sig=known_sig,
                    show=lambda c: dict(docs=[gen.render(d) for d in c['docs']], safes=c['safes']))


def replay(data):
    r = data['replay']
    if 'input' in r:
        from ..reparse import parse_doc
        x = r['input']
        if x.get('rec') or (isinstance(x.get('case'), dict) and x['case'].get('rec')):
            f = judge_rec(x.get('case', x))
            print('replay:', 'property FAILS' if f else 'property holds', f or '')
            return 1 if f else 0
        if x.get('leaf') or (isinstance(x.get('case'), dict) and x['case'].get('leaf')):
            f = judge_leaf(x.get('case', x))
            print('replay:', 'property FAILS' if f else 'property holds', f or '')
            return 1 if f else 0
        if x.get('names'):
            from .. import scenrun
            res = scenrun.run_batch([dict(texts=[l], probes=[]) for l in x['layouts']])
            bad = [(l, r) for l, r in zip(x['layouts'], res) if r['kind'] == 'ok' or not r.get('unsafe_cause')]
            print('replay:', 'property FAILS' if bad else 'property holds', bad[:1])
            return 1 if bad else 0
        f = judge(dict(docs=[parse_doc(t) for t in x['docs']], safes=x['safes']))
        print('replay:', 'property FAILS' if f else 'property holds', f or '')
        return 1 if f else 0
    print('no input to replay; broken obligations:', r)
    return 1
