"""C03 — priorities: the highest-priority writer wins, the latest among equals; metadata combined."""
from .. import common, gen, mergecorr, oracles, t2
from . import base

THEOREMS = ['C03_constants', 'C03_binary', 'C03_winner', 'C03_metadata', 'C03_container_priority_applies_below', 'C03_priorities_refine',
            'C03_every_leaf_path_latest_of_highest', 'C03_merge_is_prioritised_update', 'C03_prediction_sound', 'C03_document_prediction_sound', 'C03_update_is_pointwise', 'C03_evaluated_config', 'C03_no_lists_no_side_condition', 'C03_side_condition_document_by_document',
            'C03_metadata_refines', 'C03_metadata_keys_at_every_meeting', 'C03_metadata_forgets_to_priorities', 'C03_metadata_prediction_sound', 'C03_leaf_meeting_decided_anywhere']


def in_domain(docs):
    """mappings and scalars only, priority tags not nested inside differently... inside any other priority tag (the text does not say which wins)"""
    def ok(n):
        if n[0] == 'seq':
            return False
        if n[0] == 'map':
            return all(ok(c) for _, c in n[2])
        return True
    return all(ok(d) and not oracles.nested_priority_conflict(d) for d in docs)


def tag_metadata(tag):
    """user metadata written in a !metadata{{..}} tag (the reserved keys are node arguments, not metadata)"""
    if not tag or not tag.startswith('!metadata{{'):
        return {}
    d = eval('{' + tag[len('!metadata{{'):-2] + '}')
    return {k: v for k, v in d.items() if k not in ('priority', 'delete', 'allow_new', 'safe')}


def gen_meta_history(rng):
    """several leaves carrying the SAME metadata literal (with or without a priority), later stages competing with some of them and bringing
    their own metadata (extra keys, conflicting keys)"""
    from ..reparse import parse_doc
    lit = rng.choice(["'owner': 'core'", "'owner': 'core', 'priority': 1", "'m1': 1, 'priority': -1", "'m1': 1, 'm2': 2"])
    keys = ['a', 'b', 'c']
    texts = ['{' + ', '.join(f"{k}: !metadata{{{{{lit}}}}} {i}" for i, k in enumerate(keys)) + '}']
    for i in range(rng.randint(1, 3)):
        k = rng.choice(keys)
        other = rng.choice(["'note': 'n%d'" % i, "'owner': 'site', 'note': 'n%d'" % i, "'m1': 9, 'priority': %d" % rng.choice([1, -1]), "'m3': %d" % i])
        texts.append('{%s: !metadata{{%s}} %d}' % (k, other, 10 + i))
    if rng.random() < 0.3:
        texts = texts[1:] + texts[:1]
    return [parse_doc(t) for t in texts]


def judge(docs):
    texts = [gen.render(d) for d in docs]
    kind, root = oracles.build(texts)
    if kind != 'ok':
        return dict(unexpected_error=kind, message=root)
    plain = base.to_plain(root)
    per_doc = [list(oracles.leaves(d)) for d in docs]
    allpaths = []
    for ls in per_doc:
        for p, _, _ in ls:
            if p not in allpaths:
                allpaths.append(p)
    for p in allpaths:
        # every stage that reaches p must hold a scalar there, and mappings above it
        writers = []
        clean = True
        for d in docs:
            for i in range(len(p)):
                n = oracles.node_at(d, p[:i])
                if n is None:
                    break
                if n[0] != 'map':
                    clean = False
            n = oracles.node_at(d, p)
            if n is not None:
                if n[0] != 'sc':
                    clean = False
        if not clean:
            continue
        for i, ls in enumerate(per_doc):
            for q, n, pr in ls:
                if q == p:
                    writers.append((i, n, pr))
        best = max(pr for _, _, pr in writers)
        win = [w for w in writers if w[2] == best][-1]
        exp = oracles.scalar_value(win[1][2])
        got = oracles.lookup(plain, p)
        if got is KeyError or base.typed(got) != base.typed(exp):
            return dict(path=list(p), expected=repr(exp), got=repr(None if got is KeyError else got),
                        writers=[dict(stage=i, value=n[2], priority=pr) for i, n, pr in writers], winner_stage=win[0])
        # user metadata of the competing values is combined under the same rule: at every meeting the survivor's entries take precedence,
        # the other writer's extra keys are kept - nothing lost, nothing invented
        node = oracles.node_lookup(root, p)
        cur_pr, cur_md = None, {}
        for _, n, pr in writers:
            md = tag_metadata(n[1])
            if cur_pr is not None and cur_pr > pr:
                cur_md = {**md, **cur_md}
            else:
                cur_md, cur_pr = {**cur_md, **md}, pr
        have = dict(node.ayns.metadata)
        if have != cur_md:
            return dict(path=list(p), metadata_expected=repr(cur_md), metadata_got=repr(have), lost=sorted(set(cur_md) - set(have)), invented=sorted(set(have) - set(cur_md)))
    return None


def gen_three_stage(rng):
    """3-4 stages writing into ONE container: the container carries a priority tag in some stages, single leaves in others, keys are
    added by later stages - the hidden priority a container / an added entry keeps after each merge decides what the next writer may do"""
    from ..reparse import parse_doc
    keys = ['p', 'q', 'r']
    texts = []
    for i in range(rng.randint(3, 4)):
        how = rng.random()
        ents = rng.sample(keys, rng.randint(1, 2))
        if how < 0.45:
            tag = rng.choice(['!weak ', '!force ', '', ''])
            texts.append('{c: %s{%s}, z: %d}' % (tag, ', '.join(f'{k}: {10 * i + j}' for j, k in enumerate(ents)), i))
        else:
            texts.append('{c: {%s}}' % ', '.join(f"{k}: {rng.choice(['!weak ', '!force ', '', ''])}{10 * i + j}" for j, k in enumerate(ents)))
    return [parse_doc(t) for t in texts]


SPEC_HDR = 'From AY Require Import Model.Eq Spec.Update Spec.UpdateP Proofs.MergePrio Proofs.PrioClass.\nOpen Scope Z_scope.\n'
SPEC_INCLASS = 'fun c : list node * option node => match predict_prio (fst c) with Some _ => true | None => false end'
SPEC_FULL = 'fun c : list node * option node => match predict_prio (fst c), snd c with Some d, Some r => pp_eqb d (perase r) | Some _, None => false | None, _ => true end'
SPEC_VALS = 'fun c : list node * option node => match predict_prio (fst c), snd c with Some d, Some r => plain_eqb (pvals d) (erase r) | Some _, None => false | None, _ => true end'
DOC_HDR = 'From AY Require Import Model.Eq Model.Loader Spec.Update Spec.UpdateP Proofs.MergePrio Proofs.PrioClass.\nOpen Scope Z_scope.\n'
DOC_INCLASS = 'fun c : list ynode * option node => match predict_docs (fst c) with Some _ => true | None => false end'
DOC_FULL = 'fun c : list ynode * option node => match predict_docs (fst c), snd c with Some d, Some r => pp_eqb d (perase r) | Some _, None => false | None, _ => true end'
DOC_VALS = 'fun c : list ynode * option node => match predict_docs (fst c), snd c with Some d, Some r => plain_eqb (pvals d) (erase r) | Some _, None => false | None, _ => true end'


def add_lists(n, rng, p=0.3, top=True):
    """turn some scalar leaves into WHOLE-LIST values: the list keeps the leaf's tag, nothing inside it is tagged"""
    if n[0] == 'map':
        return ('map', n[1], [(k, add_lists(c, rng, p, False)) for k, c in n[2]])
    if n[0] == 'sc' and not top and rng.random() < p:
        els = [rng.choice([('sc', None, str(rng.randint(0, 9))), ('sc', None, 'x'), ('map', None, [('u', ('sc', None, '1'))]), ('seq', None, [('sc', None, '2')])]) for _ in range(rng.randint(0, 3))]
        tag = n[1] if n[1] in (None, '!force', '!weak') else None
        return ('seq', tag, els)
    return n


def probe_stages(docs, rng):
    """later stages that write every path the history mentions again - at the default, the weak and the force level - plus the same with
    the values wrapped one level deeper; used to expose a hidden priority"""
    paths = []
    for d in docs:
        for p in gen.existing_paths(d):
            if p and all(isinstance(c, str) for c in p) and p not in paths:
                paths.append(p)
    out = []
    for tag in (None, '!weak', '!force'):
        for p in paths[:12]:
            leaf = ('sc', tag, 'probe')
            n = leaf
            for c in reversed(p):
                n = ('map', None, [(c, n)])
            out.append(n)
            n2 = ('map', tag, [('probe', ('sc', None, '1'))])
            for c in reversed(p):
                n2 = ('map', None, [(c, n2)])
            out.append(n2)
    rng.shuffle(out)
    return out[:40]


def spec_items(docs):
    """(stage-tree item, document item, texts, outcome) for one history, or None if it cannot be parsed / serialised"""
    from .. import ser, loadcorr
    texts = [gen.render(d) for d in docs]
    try:
        b = mergecorr.parse_stages(texts)
        intern = ser.Interner()
        stage_terms = [ser.node_term(st, intern) for st in b.stages]
    except Exception:
        return None
    try:
        root = b.build()
        got, how = f'(Some {ser.node_term(root, intern)})', 'ok'
    except Exception as e:
        got, how = 'None', type(e).__name__
    item = f'({ser.coq_list(stage_terms)}, {got})'
    try:
        ditem = f'({ser.coq_list(loadcorr.ynode_term(d, intern) for d in docs)}, {got})'
    except ValueError:
        ditem = f'([], {got})'
    return item, ditem, texts, how


def spec_p_corr(rep, rng, n):
    """the SPEC of C03_priorities_refine against the implementation: histories of mapping-only documents with !force / !weak /
    !metadata{{priority}} tags on scalars and enclosing mappings.  The stages are handed to Coq as the trees the real loader built (all raw
    flags) together with the tree Builder.build returned; Coq decides class membership (Proofs.PrioClass.newz_b, proved sound), folds
    Spec.UpdateP.upd_p over the priority images and compares with the priority image of the built tree.  A difference in the VALUES is a
    concrete failing input of the property; a difference only in node priorities breaks the correspondence obligation."""
    prof = gen.PROFILES['priomap']
    prof_new = gen.Profile(p_tag=0.35, tags=gen.PRIO_TAGS + ['!new', '!unsafe'], p_seq=0.0, p_map=0.55, meta=0.2, p_empty=0.05)   # !new / !unsafe marks are inside the class
    items, shown, ditems, trees = [], [], [], []
    for i in range(n):
        docs = gen_three_stage(rng) if i % 4 == 0 else (gen_meta_history(rng) if i % 8 == 6 else gen.gen_history(rng, prof_new if i % 4 == 1 else prof, 2, 5))
        if i % 2 == 1:
            docs = [add_lists(d, rng) for d in docs]        # lists as values (whole lists with one priority)
        it = spec_items(docs)
        if it is None:
            continue
        items.append(it[0])
        ditems.append(it[1])
        shown.append(it[2])
        trees.append(docs)
        rep.count('priority spec: implementation ' + it[3])
    hdr, inclass, chk_full, chk_vals = SPEC_HDR, SPEC_INCLASS, SPEC_FULL, SPEC_VALS
    bad, errors_, wall, cmd = common.run_case_files('c03p', hdr, items, chk_full, shard=150)
    rep.checker_cmds.append(cmd)
    badv, errors3, _, _ = common.run_case_files('c03v', hdr, items, chk_vals, shard=150)
    out, errors2, _, _ = common.run_case_files('c03k', hdr, items, inclass, shard=150)
    ninc = len(items) - len(out)
    rep.count('priority spec: histories inside the theorem class NewZ (judged)', ninc)
    rep.count('priority spec: histories outside the class (not judged)', len(out))
    rep.oblige(f'T3 correspondence fold of Spec.UpdateP.upd_p (class membership and priority images computed from the loaded trees) = Builder.build on {ninc} histories '
               'of mapping documents with priority tags (values and priorities of every node)',
               not bad and not errors_ and not errors2 and not errors3 and ninc > 0, (f'{len(bad)} disagreements, e.g. {shown[bad[0]]}' if bad else '') + (errors_[0]['log'][-400:] if errors_ else ''))
    for i in badv[:3]:
        rep.violation('the merged values differ from the prioritised update (the latest writer of highest priority) on mapping documents with priority tags', dict(oracle='upd_p spec', input=shown[i]))
    # a history on which only node PRIORITIES differ from the prediction: search for a later stage that turns the hidden difference into a wrong VALUE
    # (every existing path written again with fresh values at each priority level; a few random related stages)
    hidden = [i for i in bad if i not in badv][:4]
    if hidden and not badv:
        probes, pshown = [], []
        for i in hidden:
            for ext in probe_stages(trees[i], rng):
                it = spec_items(trees[i] + [ext])
                if it is not None:
                    probes.append(it[0])
                    pshown.append(it[2])
        pbad = common.run_case_files('c03x', hdr, probes, chk_vals, shard=150)[0] if probes else []
        rep.count('priority spec: probe stages tried for hidden priority differences', len(probes))
        for j in pbad[:2]:
            rep.violation('a node priority that differs from the prioritised update decides a later stage wrongly: the merged values differ', dict(oracle='upd_p spec', input=pshown[j]))
    # ... and the metadata mapping of every node (C03_metadata_prediction_sound): {**loser, **survivor} at every meeting
    mhdr = 'From AY Require Import Model.Eq Spec.Update Spec.UpdateP Spec.UpdatePM Proofs.MergePrio Proofs.MergePrioMeta Proofs.PrioClass Proofs.PrioMetaLoad.\nOpen Scope Z_scope.\n'
    mchk = 'fun c : list node * option node => match predict_meta (fst c), snd c with Some d, Some r => mp_eqb d (merase r) | Some _, None => false | None, _ => true end'
    mbad, e7, _, _ = common.run_case_files('c03m', mhdr, items, mchk, shard=150)
    rep.oblige(f'T3 correspondence fold of Spec.UpdatePM.upd_pm = Builder.build on the same {ninc} histories: values, priorities AND the user metadata of every node',
               not mbad and not e7 and ninc > 0, (f'{len(mbad)} disagreements, e.g. {shown[mbad[0]]}' if mbad else '') + (e7[0]['log'][-400:] if e7 else ''))
    rep.extra.setdefault('correspondence', []).append(dict(label='upd_pm spec (metadata)', cases=len(items), in_class=ninc, disagreements=len(mbad)))
    # the same from the DOCUMENT down (C03_document_prediction_sound): the prediction is computed from the tags written in the text, so it also
    # covers how the loader spreads a container's priority
    dchk, dfull, dcls, hdr2 = DOC_VALS, DOC_FULL, DOC_INCLASS, DOC_HDR
    dbadv, e4, _, _ = common.run_case_files('c03d', hdr2, ditems, dchk, shard=150)
    dbad, e5, _, _ = common.run_case_files('c03e', hdr2, ditems, dfull, shard=150)
    dout, e6, _, _ = common.run_case_files('c03f', hdr2, ditems, dcls, shard=150)
    dinc = len(ditems) - len(dout)
    rep.count('priority spec: histories inside the document class yz (judged from the text)', dinc)
    rep.oblige(f'T3 correspondence fold of upd_p over the documents\' images yprio (priorities read off the TEXT: outermost tagged ancestor-or-self) = Builder.build on {dinc} histories',
               not dbad and not e4 and not e5 and not e6 and dinc > 0, (f'{len(dbad)} disagreements, e.g. {shown[dbad[0]]}' if dbad else '') + (e5[0]['log'][-400:] if e5 else ''))
    for i in dbadv[:3]:
        if i not in badv[:3]:
            rep.violation('the merged values differ from the prioritised update of the documents (a container tag applies to everything below it; latest writer of highest priority)',
                          dict(oracle='upd_p spec', input=shown[i]))
    rep.extra.setdefault('correspondence', []).append(dict(label='upd_p spec (documents)', cases=len(ditems), in_class=dinc, disagreements=len(dbad), value_disagreements=len(dbadv)))
    rep.extra.setdefault('correspondence', []).append(dict(label='upd_p spec', cases=len(items), in_class=ninc, disagreements=len(bad), value_disagreements=len(badv), coq_wall_s=round(wall, 1)))


def run(rep, tier, rng):
    rep.rule = ('histories of 2-5 mapping documents over keys {a,b,c,r,0,1,2} whose nodes carry !force/!weak (on leaves or enclosing mappings) and '
                '!metadata{{..}} with optional priority; later documents are mutations of earlier ones so that writers of different priority meet at the same path; '
                'non-trivial = some path has writers of >= 2 different priorities; distinct = hash of the texts')
    base.proofs(rep, 'Properties.C03', THEOREMS, deps=['Proofs.FactsOk'])
    t2.run(rep, ['hpo', 'repl'], tier)
    # the loader model the container theorem is stated on: priority tags (nested, on mappings, lists and scalars, with metadata priorities)
    from .. import loadcorr
    pprof = gen.Profile(p_tag=0.45, tags=['!force', '!weak', '!force', '!weak', '!del', '!unsafe'], meta=0.25, underscore=True, p_intkey=0.15, max_depth=4)
    litems = []
    for _ in range(150 if tier == 'quick' else 2500):
        r = loadcorr.run_case(gen.gen_doc(rng, pprof), safe=True)
        if r['ok']:
            litems.append(r['term'])
    bad, errors, wall, cmd = common.run_case_files('c03l', loadcorr.HEADER, litems, loadcorr.CHECK)
    rep.checker_cmds.append(cmd)
    rep.oblige(f'T3 correspondence Model.Loader.load_doc = awesomeyaml.yaml.parse on {len(litems)} documents with nested priority tags (raw priority of every node)',
               bool(litems) and not bad and not errors, (f'{len(bad)} disagreements' if bad else '') + (errors[0]['log'][-400:] if errors else ''))
    n = 400 if tier == 'quick' else 6000
    cases = base.merge_t3(rep, rng, ['priomap', 'prio', 'priomap'], n, 'prio', 2, 5)
    spec_p_corr(rep, rng, 300 if tier == 'quick' else 5000)
    hist = [c['docs'] for c in cases if 'docs' in c]
    prof = gen.PROFILES['priomap']
    for _ in range(300 if tier == 'quick' else 6000):
        hist.append(gen.gen_history(rng, prof, 2, 5))
    for _ in range(150 if tier == 'quick' else 3000):
        hist.append(gen_three_stage(rng))
    for _ in range(60 if tier == 'quick' else 1000):
        hist.append(gen_meta_history(rng))
    for docs in hist:
        prs = set()
        for d in docs:
            for _, _, pr in oracles.leaves(d):
                prs.add(pr)
        rep.case('\n'.join(gen.render(d) for d in docs), len(prs) >= 2, sample=[gen.render(d) for d in docs])
    base.run_oracle(rep, 'C03', 'latest-argmax writer vs Builder.build', hist, judge, in_domain=in_domain, show=lambda docs: [gen.render(d) for d in docs])


def replay(data):
    r = data['replay']
    if 'input' in r and r.get('oracle') == 'upd_p spec':
        from ..reparse import parse_doc
        it = spec_items([parse_doc(t) for t in r['input']])
        b1 = common.run_case_files('c03rp', SPEC_HDR, [it[0]], SPEC_VALS)[0]
        b2 = common.run_case_files('c03rq', DOC_HDR, [it[1]], DOC_VALS)[0]
        fails = bool(b1 or b2)
        print('replay:', 'property FAILS: Builder.build differs from the prioritised update' + (' of the loaded stages' if b1 else ' of the documents as written') if fails else 'property holds', r['input'])
        return 1 if fails else 0
    if 'input' in r:
        import yaml
        texts = r['input']
        # rebuild document trees from the texts is not possible in general; re-judge through the text-level reference
        from ..reparse import parse_doc
        docs = [parse_doc(t) for t in texts]
        f = judge(docs)
        print('replay:', 'property FAILS' if f else 'property holds', f or '')
        return 1 if f else 0
    print('no input to replay; broken obligations:', r)
    return 1
