"""C03 — priorities: the highest-priority writer wins, the latest among equals; metadata combined."""
from .. import common, gen, mergecorr, oracles, t2
from . import base

THEOREMS = ['C03_constants', 'C03_binary', 'C03_winner', 'C03_metadata', 'C03_container_priority_applies_below', 'C03_priorities_refine',
            'C03_every_leaf_path_latest_of_highest', 'C03_merge_is_prioritised_update', 'C03_prediction_sound', 'C03_update_is_pointwise']


def in_domain(docs):
    """mappings and scalars only, priority tags not nested inside differently... inside any other priority tag (the text does not say which wins)"""
    def ok(n):
        if n[0] == 'seq':
            return False
        if n[0] == 'map':
            return all(ok(c) for _, c in n[2])
        return True
    return all(ok(d) and not oracles.nested_priority_conflict(d) for d in docs)


def judge(docs):
    texts = [gen.render(d) for d in docs]
    kind, root = oracles.build(texts)
    if kind != 'ok':
        return dict(unexpected_error=kind, message=root)
    plain = base.to_plain(root)
    per_doc = [list(oracles.leaves(d)) for d in docs]
    allpaths = []
    for ls in per_doc:
        for p, _, _ in ls:
            if p not in allpaths:
                allpaths.append(p)
    for p in allpaths:
        # every stage that reaches p must hold a scalar there, and mappings above it
        writers = []
        clean = True
        for d in docs:
            for i in range(len(p)):
                n = oracles.node_at(d, p[:i])
                if n is None:
                    break
                if n[0] != 'map':
                    clean = False
            n = oracles.node_at(d, p)
            if n is not None:
                if n[0] != 'sc':
                    clean = False
        if not clean:
            continue
        for i, ls in enumerate(per_doc):
            for q, n, pr in ls:
                if q == p:
                    writers.append((i, n, pr))
        best = max(pr for _, _, pr in writers)
        win = [w for w in writers if w[2] == best][-1]
        exp = oracles.scalar_value(win[1][2])
        got = oracles.lookup(plain, p)
        if got is KeyError or base.typed(got) != base.typed(exp):
            return dict(path=list(p), expected=repr(exp), got=repr(None if got is KeyError else got),
                        writers=[dict(stage=i, value=n[2], priority=pr) for i, n, pr in writers], winner_stage=win[0])
        # metadata keys: none is lost
        node = oracles.node_lookup(root, p)
        want = set()
        for _, n, _ in writers:
            want.update(oracles.tag_metadata_keys(n[1]))
        have = set(node.ayns.metadata.keys())
        if not want <= have:
            return dict(path=list(p), metadata_keys_lost=sorted(want - have), have=sorted(have))
    return None


def gen_three_stage(rng):
    """3-4 stages writing into ONE container: the container carries a priority tag in some stages, single leaves in others, keys are
    added by later stages - the hidden priority a container / an added entry keeps after each merge decides what the next writer may do"""
    from ..reparse import parse_doc
    keys = ['p', 'q', 'r']
    texts = []
    for i in range(rng.randint(3, 4)):
        how = rng.random()
        ents = rng.sample(keys, rng.randint(1, 2))
        if how < 0.45:
            tag = rng.choice(['!weak ', '!force ', '', ''])
            texts.append('{c: %s{%s}, z: %d}' % (tag, ', '.join(f'{k}: {10 * i + j}' for j, k in enumerate(ents)), i))
        else:
            texts.append('{c: {%s}}' % ', '.join(f"{k}: {rng.choice(['!weak ', '!force ', '', ''])}{10 * i + j}" for j, k in enumerate(ents)))
    return [parse_doc(t) for t in texts]


def spec_p_corr(rep, rng, n):
    """the SPEC of C03_priorities_refine against the implementation: histories of mapping-only documents with !force / !weak /
    !metadata{{priority}} tags on scalars and enclosing mappings.  The stages are handed to Coq as the trees the real loader built (all raw
    flags) together with the tree Builder.build returned; Coq decides class membership (Proofs.PrioClass.newz_b, proved sound), folds
    Spec.UpdateP.upd_p over the priority images and compares with the priority image of the built tree.  A difference in the VALUES is a
    concrete failing input of the property; a difference only in node priorities breaks the correspondence obligation."""
    from .. import ser
    prof = gen.PROFILES['priomap']
    items, shown = [], []
    for i in range(n):
        docs = gen_three_stage(rng) if i % 4 == 0 else gen.gen_history(rng, prof, 2, 5)
        texts = [gen.render(d) for d in docs]
        try:
            b = mergecorr.parse_stages(texts)
            intern = ser.Interner()
            stage_terms = [ser.node_term(st, intern) for st in b.stages]
        except Exception:
            continue
        try:
            root = b.build()
            got = f'(Some {ser.node_term(root, intern)})'
            rep.count('priority spec: implementation ok')
        except Exception as e:
            got = 'None'
            rep.count('priority spec: implementation ' + type(e).__name__)
        items.append(f'({ser.coq_list(stage_terms)}, {got})')
        shown.append(texts)
    hdr = 'From AY Require Import Model.Eq Spec.Update Spec.UpdateP Proofs.MergePrio Proofs.PrioClass.\nOpen Scope Z_scope.\n'
    inclass = 'fun c : list node * option node => match predict_prio (fst c) with Some _ => true | None => false end'
    chk_full = ('fun c : list node * option node => match predict_prio (fst c), snd c with Some d, Some r => pp_eqb d (perase r) | Some _, None => false | None, _ => true end')
    chk_vals = ('fun c : list node * option node => match predict_prio (fst c), snd c with Some d, Some r => plain_eqb (pvals d) (erase r) | Some _, None => false | None, _ => true end')
    bad, errors_, wall, cmd = common.run_case_files('c03p', hdr, items, chk_full, shard=150)
    rep.checker_cmds.append(cmd)
    badv, errors3, _, _ = common.run_case_files('c03v', hdr, items, chk_vals, shard=150)
    out, errors2, _, _ = common.run_case_files('c03k', hdr, items, inclass, shard=150)
    ninc = len(items) - len(out)
    rep.count('priority spec: histories inside the theorem class NewZ (judged)', ninc)
    rep.count('priority spec: histories outside the class (not judged)', len(out))
    rep.oblige(f'T3 correspondence fold of Spec.UpdateP.upd_p (class membership and priority images computed from the loaded trees) = Builder.build on {ninc} histories '
               'of mapping documents with priority tags (values and priorities of every node)',
               not bad and not errors_ and not errors2 and not errors3 and ninc > 0, (f'{len(bad)} disagreements, e.g. {shown[bad[0]]}' if bad else '') + (errors_[0]['log'][-400:] if errors_ else ''))
    for i in badv[:3]:
        rep.violation('the merged values differ from the prioritised update (the latest writer of highest priority) on mapping documents with priority tags', dict(oracle='upd_p spec', input=shown[i]))
    rep.extra.setdefault('correspondence', []).append(dict(label='upd_p spec', cases=len(items), in_class=ninc, disagreements=len(bad), value_disagreements=len(badv), coq_wall_s=round(wall, 1)))


def run(rep, tier, rng):
    rep.rule = ('histories of 2-5 mapping documents over keys {a,b,c,r,0,1,2} whose nodes carry !force/!weak (on leaves or enclosing mappings) and '
                '!metadata{{..}} with optional priority; later documents are mutations of earlier ones so that writers of different priority meet at the same path; '
                'non-trivial = some path has writers of >= 2 different priorities; distinct = hash of the texts')
    base.proofs(rep, 'Properties.C03', THEOREMS, deps=['Proofs.FactsOk'])
    t2.run(rep, ['hpo', 'repl'], tier)
    # the loader model the container theorem is stated on: priority tags (nested, on mappings, lists and scalars, with metadata priorities)
    from .. import loadcorr
    pprof = gen.Profile(p_tag=0.45, tags=['!force', '!weak', '!force', '!weak', '!del', '!unsafe'], meta=0.25, underscore=True, p_intkey=0.15, max_depth=4)
    litems = []
    for _ in range(150 if tier == 'quick' else 2500):
        r = loadcorr.run_case(gen.gen_doc(rng, pprof), safe=True)
        if r['ok']:
            litems.append(r['term'])
    bad, errors, wall, cmd = common.run_case_files('c03l', loadcorr.HEADER, litems, loadcorr.CHECK)
    rep.checker_cmds.append(cmd)
    rep.oblige(f'T3 correspondence Model.Loader.load_doc = awesomeyaml.yaml.parse on {len(litems)} documents with nested priority tags (raw priority of every node)',
               bool(litems) and not bad and not errors, (f'{len(bad)} disagreements' if bad else '') + (errors[0]['log'][-400:] if errors else ''))
    n = 400 if tier == 'quick' else 6000
    cases = base.merge_t3(rep, rng, ['priomap', 'prio', 'priomap'], n, 'prio', 2, 5)
    spec_p_corr(rep, rng, 300 if tier == 'quick' else 5000)
    hist = [c['docs'] for c in cases if 'docs' in c]
    prof = gen.PROFILES['priomap']
    for _ in range(300 if tier == 'quick' else 6000):
        hist.append(gen.gen_history(rng, prof, 2, 5))
    for _ in range(150 if tier == 'quick' else 3000):
        hist.append(gen_three_stage(rng))
    for docs in hist:
        prs = set()
        for d in docs:
            for _, _, pr in oracles.leaves(d):
                prs.add(pr)
        rep.case('\n'.join(gen.render(d) for d in docs), len(prs) >= 2, sample=[gen.render(d) for d in docs])
    base.run_oracle(rep, 'C03', 'latest-argmax writer vs Builder.build', hist, judge, in_domain=in_domain, show=lambda docs: [gen.render(d) for d in docs])


def replay(data):
    r = data['replay']
    if 'input' in r:
        import yaml
        texts = r['input']
        # rebuild document trees from the texts is not possible in general; re-judge through the text-level reference
        from ..reparse import parse_doc
        docs = [parse_doc(t) for t in texts]
        f = judge(docs)
        print('replay:', 'property FAILS' if f else 'property holds', f or '')
        return 1 if f else 0
    print('no input to replay; broken obligations:', r)
    return 1
