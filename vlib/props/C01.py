"""C01 — tags are transparent: one source evaluates to its plain-YAML content."""
import yaml as pyyaml
from .. import common, gen, oracles, loadcorr, mergecorr
from . import base

THEOREMS = ['C01_transparent', 'C01_move_tags', 'C01_single_document_build', 'C01_evaluates']
CONTROL = ('!force', '!weak', '!del', '!merge', '!new', '!unsafe', '!metadata')


def evaluate_text(text):
    from awesomeyaml.config import Config
    from awesomeyaml.builder import Builder
    b = Builder()
    b.add_source(text, raw_yaml=True, filename='<doc>')
    return Config(b.build())


def plainify(v):
    if isinstance(v, dict):
        return {k: plainify(a) for k, a in v.items()}
    if isinstance(v, list):
        return [plainify(a) for a in v]
    return v


def erase_tags_text(n):
    return gen.render(gen.strip_tags(n))


def judge(doc):
    """tagged document vs its tag-erased twin loaded by plain PyYAML: data, Python types, key order"""
    text = gen.render(doc)
    twin = erase_tags_text(doc)
    try:
        exp = pyyaml.load(twin, Loader=pyyaml.Loader)
    except Exception:
        return None
    try:
        got = plainify(evaluate_text(text))
    except Exception as e:
        return dict(text=text, reason='a single document with merge-control tags failed to build', error=type(e).__name__ + ': ' + str(e)[:200])
    if base.typed(got) != base.typed(exp):
        return dict(text=text, reason='the evaluated content differs from what PyYAML loads from the tag-erased source', expected=repr(exp)[:400], got=repr(got)[:400])
    return None


def judge_text(pair):
    """text-level corpus: (tagged text, erased text)"""
    tagged, erased = pair
    exp = pyyaml.load(erased, Loader=pyyaml.Loader)
    try:
        got = plainify(evaluate_text(tagged))
    except Exception as e:
        return dict(text=tagged, reason='failed to build', error=type(e).__name__ + ': ' + str(e)[:200])
    if base.typed(got) != base.typed(exp):
        return dict(text=tagged, reason='the evaluated content differs from what PyYAML loads from the tag-erased source', expected=repr(exp)[:400], got=repr(got)[:400])
    return None


def block_corpus(rng):
    """tags on block-style scalars and block collections (the flow-style generator never produces these)"""
    out = []
    vals = ['123', 'true', 'null', '1.5', '0x10', 'off', 'plain text', '~', "'quoted'"]
    tags = ['!force', '!weak', '!del', '!merge', '!new', '!unsafe', "!metadata{{'m': 1}}"]
    for _ in range(40):
        t = rng.choice(tags)
        v = rng.choice(vals)
        style = rng.choice(['|', '|-', '>', '>-'])
        tagged = f'version: {t} {style}\n  {v}\nother:\n  - {t} {style}\n    {v}\n  - 2\n'
        erased = f'version: {style}\n  {v}\nother:\n  - {style}\n    {v}\n  - 2\n'
        out.append((tagged, erased))
        t2 = rng.choice(tags)
        tagged = f'a: {t2}\n  b:\n    c:\n      - 1\n      - [2, 3]\n    _p: {t} {v}\n  d: {t} [x, y]\n'
        erased = f'a:\n  b:\n    c:\n      - 1\n      - [2, 3]\n    _p: {v}\n  d: [x, y]\n'
        out.append((tagged, erased))
    return out


def text_corpus2(rng, n):
    """(a) several literally EMPTY values inside one container below a merge-control tag (they share one node object through the
    constructor's memo); (b) three or more {{...}} metadata blocks in one source (every block is rewritten in place)"""
    out = []
    tags = ['!force', '!weak', '!del', '!merge', '!new', '!unsafe']
    for _ in range(n):
        t = rng.choice(tags)
        k = rng.randint(2, 4)
        keys = rng.sample(['verbose', 'debug', 'trace', 'dry', 'x'], k)
        body = ', '.join(f'{kk}: ' for kk in keys)
        out.append((f'{{opts: {t} {{{body}, level: 3}}, n: 1}}', f'{{opts: {{{body}, level: 3}}, n: 1}}'))
        out.append((f'l: {t}\n  -\n  - 1\n  -\n  -\nm: {t} {{a: {{p: , q: }}}}\n', 'l:\n  -\n  - 1\n  -\n  -\nm: {a: {p: , q: }}\n'))
        out.append((f'--- {t}\na:\nb:\nc:\n  -\n  -\n', 'a:\nb:\nc:\n  -\n  -\n'))
        nb = rng.randint(3, 6)
        ents, eras = [], []
        for i in range(nb):
            note = rng.choice(['a', 'long note ' * rng.randint(1, 3), 'z' * rng.randint(1, 30)])
            pr = rng.choice(['', ", 'priority': 1", ", 'priority': -1"])
            kind = '!metadata'          # the {{..}} syntax exists for !metadata and the dynamic tags, not for !force / !weak / !del
            val = rng.choice(['1', 'text', '[1, 2]', '{q: 2}'])
            ents.append(f"k{i}: {kind}{{{{'note': '{note}'{pr}}}}} {val}")
            eras.append(f'k{i}: {val}')
        out.append(('{' + ', '.join(ents) + '}', '{' + ', '.join(eras) + '}'))
        out.append(('\n'.join(ents) + '\n', '\n'.join(eras) + '\n'))
        # metadata literals that contain braces themselves: nested mappings, a string holding '}' / '}}', a set display
        lit = rng.choice(["'a': {'b': 1}, 'c': 2", "'s': '}', 't': 3", "'s': 'x}}y', 'n': {'m': {'k': 0}}", "'l': [1, {'u': 2}], 'z': '{{'", "'q': {1, 2}"])
        out.append((f"{{k: !metadata{{{{{lit}}}}} 5, j: !metadata{{{{'w': {{'v': 1}}}}}} [1], i: 2}}", '{k: 5, j: [1], i: 2}'))
        out.append((f"k: !metadata{{{{{lit}}}}} 5\nj: 6\n", 'k: 5\nj: 6\n'))
        # keys that are also attribute names of the node / builder classes (the loader accepts them); float keys holding containers
        names = rng.sample(['stages', 'builder', 'value', 'source', 'merge', 'node_info', 'children', 'name', 'path', 'default', 'delete', 'priority', 'safe', 'metadata', 'idx', 'tag'], 3)
        vals = ['[{name: build, jobs: 4}, {name: test, jobs: 2}]', '{a: 1, b: [2]}', '3', '[1, 2]', '{name: x}']
        body = [(nm, rng.choice(vals)) for nm in names] + [('0.5', '[warmup, 10]'), ('2.5', '{lr: 0.1, sub: {x: 1}}'), ('1.5', 'x')]
        rng.shuffle(body)
        t2 = rng.choice(tags)
        out.append(('{' + ', '.join(f'{k}: {t2 + " " if rng.random() < 0.4 else ""}{v}' for k, v in body) + '}', '{' + ', '.join(f'{k}: {v}' for k, v in body) + '}'))
        out.append((f'--- {t2}\n' + '\n'.join(f'{k}: {v}' for k, v in body) + '\n', '\n'.join(f'{k}: {v}' for k, v in body) + '\n'))
    return out


def no_notnew(doc):
    return not gen.has_tag(doc, '!notnew')


def run(rep, tier, rng):
    rep.rule = ('mapping documents (nesting up to 4, int/float-free key alphabet incl. underscore-prefixed keys, empty containers, null/bool/float/str/int scalars) with random placements of '
                '!force/!weak/!del/!merge/!new/!notnew/!unsafe and !metadata{{..}} on scalars, mappings and lists; plus a block-style text corpus. non-trivial = a tag on a container at least two '
                'levels above a leaf; distinct = hash of the text')
    base.proofs(rep, 'Properties.C01', THEOREMS, deps=['Proofs.FactsOk'])
    n = 500 if tier == 'quick' else 8000
    docs, items = [], []
    skipped = 0
    for _ in range(n):
        d = gen.gen_doc(rng, loadcorr.LOAD_PROFILE)
        r = loadcorr.run_case(d, safe=rng.random() < 0.8)
        if not r['ok']:
            skipped += 1
            if r.get('inconsistent'):
                rep.oblige('loader output keeps both container stores in sync', False, r['text'])
            continue
        docs.append(d)
        items.append(r['term'])
        for t, c in gen.tag_hist(d).items():
            rep.count('tag ' + t, c)
    bad, errors, wall, cmd = common.run_case_files('load', loadcorr.HEADER, items, loadcorr.CHECK)
    rep.checker_cmds.append(cmd)
    rep.count('loader cases skipped', skipped)
    rep.oblige(f'T3 correspondence Model.Loader.load_doc = awesomeyaml.yaml.parse on {len(items)} tagged documents (all raw flags of every node)', not bad and not errors,
               (repr(dict(disagreements=len(bad), first=[gen.render(docs[i]) for i in bad[:3]])) if bad else '') + (errors[0]['log'][-500:] if errors else ''))
    def deep_tag(d, depth=0):
        if d[0] == 'sc':
            return False
        cs = [c for _, c in d[2]] if d[0] == 'map' else d[2]
        if d[1] and gen.depth(d) >= 2:
            return True
        return any(deep_tag(c, depth + 1) for c in cs)
    for d in docs:
        rep.case(gen.render(d), deep_tag(d), sample=gen.render(d))
    base.run_oracle(rep, 'C01', 'tagged document vs tag-erased twin through PyYAML', docs, judge, in_domain=no_notnew, show=lambda d: gen.render(d))
    base.run_oracle(rep, 'C01', 'block-style corpus', block_corpus(rng), judge_text, show=lambda p: dict(tagged=p[0], erased=p[1]))
    base.run_oracle(rep, 'C01', 'empty values below a tagged container; three or more metadata blocks in one source', text_corpus2(rng, 25 if tier == 'quick' else 400), judge_text,
                    show=lambda p: dict(tagged=p[0], erased=p[1]))


def replay(data):
    r = data['replay']
    if 'input' in r:
        x = r['input']
        if isinstance(x, dict):
            f = judge_text((x['tagged'], x['erased']))
        else:
            from ..reparse import parse_doc
            f = judge(parse_doc(x))
        print('replay:', 'property FAILS' if f else 'property holds', f or '')
        return 1 if f else 0
    print('no input to replay; broken obligations:', r)
    return 1
