"""C16 — !append / !extend / !prev move and grow existing content without loss."""
import copy, os
from .. import common, gen, mergecorr, oracles, t2
from . import base
from .C04 import set_plain, del_plain, wrap_at

THEOREMS = ['C16_append', 'C16_append_missing', 'C16_append_nonlist', 'C16_extend_fallback', 'C16_prev', 'C16_detach_frame', 'C16_append_end_to_end',
            'C16_append_result_at_path', 'C16_append_every_other_path_kept', 'C16_prev_end_to_end', 'C16_prev_every_other_path_kept', 'C16_extend_end_to_end', 'C16_extend_fallback_end_to_end']
PLAIN = gen.PROFILES['plain']


def ident_paths_only(doc):
    """!prev takes a path in text form: keys must be identifiers (NodePath grammar)"""
    def ok(n):
        if n[0] == 'map':
            return all((isinstance(k, int) or (isinstance(k, str) and k.replace('_', 'a').isalnum())) and ok(c) for k, c in n[2])
        if n[0] == 'seq':
            return all(ok(c) for c in n[2])
        return True
    return ok(doc)


def through_list(p):
    return any(isinstance(c, int) for c in p)


def gen_case(rng):
    basedoc = gen.gen_doc(rng, gen.Profile(p_seq=0.4, p_map=0.4), root_tag_ok=False)
    if not ident_paths_only(basedoc):
        return None
    bp = oracles.doc_plain(basedoc)
    paths = [p for p in gen.existing_paths(basedoc) if p]
    kind = rng.choice(['append', 'append', 'extend', 'extend', 'prev', 'prev', 'append_missing', 'extend_missing', 'prev_missing', 'two_ops', 'dotted_key', 'extend_equiv'])
    if kind == 'dotted_key':
        # a top-level key whose NAME looks like a path next to a real nested path of the same spelling
        k1, k2 = rng.sample(['a', 'b', 'c'], 2)
        name = rng.choice([f'{k1}.{k2}', f'{k1}[0]', f'{k1}-{k2}'])
        nested = ('map', None, [(k2, ('seq', None, [('sc', None, '2')]))]) if '.' in name else ('seq', None, [('seq', None, [('sc', None, '2')])])
        basedoc = ('map', None, [(name, ('seq', None, [('sc', None, '1')])), (k1, nested)])
        op = rng.choice(['append', 'extend'])
        els = [gen.gen_scalar(rng) for _ in range(rng.randint(1, 2))]
        return dict(kind=op, base=basedoc, path=[name], newer=('map', None, [(name, ('seq', '!' + op, els))]), els=els)
    if kind == 'extend_equiv':
        # !extend with nothing to extend must behave exactly as the plain list would (also when the older value is protected by a priority)
        basedoc = gen.gen_doc(rng, gen.PROFILES['prio'], root_tag_ok=False)
        cands = [p for p in gen.existing_paths(basedoc) if p and oracles.node_at(basedoc, p)[0] != 'seq' and not through_list(p)]
        if not cands:
            return None
        p = rng.choice(cands)
        els = [gen.gen_scalar(rng) for _ in range(rng.randint(0, 2))]
        return dict(kind=kind, base=basedoc, path=list(p), newer=wrap_at(p, ('seq', '!extend', els)), plain=wrap_at(p, ('seq', None, els)), els=els)
    els = [gen.gen_node(rng, PLAIN, 2, {}) for _ in range(rng.randint(0, 3))]
    if kind in ('append', 'extend'):
        if not paths:
            return None
        p = rng.choice(paths)
        if rng.random() < 0.12:
            # the scalar form `p: !append x` stands for `p: !append [x]` - a string is ONE element, not its characters
            e = rng.choice([('sc', None, 'abc'), ('sc', None, '7'), ('sc', None, "'x y'"), ('sc', None, 'true')])
            return dict(kind=kind, base=basedoc, path=list(p), newer=wrap_at(p, ('sc', '!' + kind, e[2])), els=[e])
        return dict(kind=kind, base=basedoc, path=list(p), newer=wrap_at(p, ('seq', '!' + kind, els)), els=els)
    if kind in ('append_missing', 'extend_missing'):
        # a fresh key below an existing mapping (or the root)
        maps = [p for p in [()] + paths if oracles.node_at(basedoc, p)[0] == 'map']
        p = tuple(rng.choice(maps)) + ('zz',)
        return dict(kind=kind, base=basedoc, path=list(p), newer=wrap_at(p, ('seq', '!' + kind.split('_')[0], els)), els=els)
    if kind in ('prev', 'prev_missing'):
        if not paths:
            return None
        tp = list(rng.choice(paths))
        if kind == 'prev_missing':
            tp = tp[:-1] + ['zz']
        return dict(kind=kind, base=basedoc, target=tp, newer=('map', None, [('qq', ('sc', '!prev', '"' + gen.render_path(tp) + '"'))]))
    if kind == 'two_ops':
        lists = [p for p in paths if oracles.node_at(basedoc, p)[0] == 'seq' and not through_list(p)]
        others = [p for p in paths if not through_list(p)]
        if len(lists) < 1 or len(others) < 2:
            return None
        p1 = rng.choice(lists)
        cands = [p for p in others if p[:len(p1)] != p1 and p1[:len(p)] != p]
        if not cands:
            return None
        tp = rng.choice(cands)
        # one document: an !append (document order first or second) and a !prev on disjoint paths
        d = wrap_at(p1, ('seq', '!append', els))
        newer = ('map', None, d[2] + [('qq', ('sc', '!prev', '"' + gen.render_path(tp) + '"'))])
        if rng.random() < 0.5:
            newer = ('map', None, list(reversed(newer[2])))
        return dict(kind=kind, base=basedoc, path=list(p1), target=list(tp), newer=newer, els=els)
    return None


def judge(case):
    bp = oracles.doc_plain(case['base'])
    texts = [gen.render(case['base']), gen.render(case['newer'])]
    kind, res = oracles.build_plain(texts)
    k = case['kind']
    els = [oracles.doc_plain(e) for e in case.get('els', [])]

    def fail(reason, **kw):
        return dict(texts=texts, reason=reason, got_kind=kind, got=repr(res)[:400], **kw)

    if k in ('append', 'extend'):
        p = tuple(case['path'])
        old = oracles.lookup(bp, p)
        if isinstance(old, list):
            exp = set_plain(bp, p, old + els)
            if kind != 'ok' or unordered(res) != unordered(exp):
                return fail(f'!{k} must give the previous list followed by the new elements and leave every other path alone', expected=repr(exp))
        elif k == 'append':
            if kind != 'PremergeError':
                return fail('!append on a non-list must fail')
        else:
            exp = set_plain(bp, p, els)      # nothing to extend: behaves as a plain list (replaces a scalar / mapping wholesale)
            if kind != 'ok' or unordered(res) != unordered(exp):
                return fail('!extend on a non-list must behave as a plain list', expected=repr(exp))
    elif k == 'extend_equiv':
        k2, res2 = oracles.build_plain([gen.render(case['base']), gen.render(case['plain'])])
        if (kind, base.typed(res) if kind == 'ok' else None) != (k2, base.typed(res2) if k2 == 'ok' else None):
            return fail('!extend with nothing to extend must behave exactly as a plain list', with_plain_list=repr(res2)[:400], plain_kind=k2)
    elif k == 'append_missing':
        if kind != 'PremergeError':
            return fail('!append without a previous list must fail')
    elif k == 'extend_missing':
        p = tuple(case['path'])
        parent = oracles.lookup(bp, p[:-1])
        exp = copy.deepcopy(bp)
        cur = exp
        for c in p[:-1]:
            cur = cur[c]
        cur[p[-1]] = els
        if kind != 'ok' or unordered(res) != unordered(exp):
            return fail('!extend with nothing to extend must silently become a plain list', expected=repr(exp))
    elif k == 'prev':
        tp = tuple(case['target'])
        moved = oracles.lookup(bp, tp)
        exp = del_plain(bp, tp)
        exp['qq'] = moved
        if kind != 'ok' or unordered(res) != unordered(exp):
            return fail('!prev must place the entire previous subtree at the new key and remove it from the old path', expected=repr(exp))
    elif k == 'prev_missing':
        if kind != 'PremergeError':
            return fail('!prev of a missing path must fail')
    elif k == 'two_ops':
        p, tp = tuple(case['path']), tuple(case['target'])
        old = oracles.lookup(bp, p)
        exp = set_plain(bp, p, old + els)
        moved = oracles.lookup(exp, tp)
        exp = del_plain(exp, tp)
        exp['qq'] = moved
        if kind != 'ok' or unordered(res) != unordered(exp):
            return fail('an !append and a !prev on disjoint paths in one document', expected=repr(exp))
    return None


def unordered(x):
    if isinstance(x, dict):
        return ('d', sorted((repr(k), unordered(v)) for k, v in x.items()))
    if isinstance(x, list):
        return ('l', [unordered(v) for v in x])
    return base.typed(x)


def known_sig(kf, failing):
    """D15: the target of !append/!extend is reached through a list index (detaching it shifts the later indices before the merge)"""
    if kf['id'] == 'D15':
        c = failing['input']
        return c['kind'] in ('append', 'extend') and through_list(c['path'])
    return False


def text_cases():
    """raw-text scenarios the document grammar does not write: (a) the path of `!prev` is TEXT - also when the word reads as a YAML bool, null
    or non-canonical number; (b) operators inside a file reached by a top-level `--- !include` see the config built by the EARLIER outer stages
    exactly as if the documents of the file had been added directly"""
    out = []
    for w, key in (('no', "'no'"), ('on', "'on'"), ('off', "'off'"), ('null', "'null'"), ('007', "'007'"), ('010', "'010'"), ('0x10', "'0x10'"), ('1e3', "'1e3'"), ('yes', "'yes'")):
        out.append(dict(text=True, kind='prev_word', stages=[f"{{{key}: [1, 2], '8': [eight], other: 3}}", f'{{picked: !prev {w}}}'],
                        expect={'8': ['eight'], 'other': 3, 'picked': [1, 2]}))
    out.append(dict(text=True, kind='prev_word', stages=["{'no': {a: [1]}, k: 1}", '{m: !prev no}', "{m: {a: !append [2]}}"], expect={'k': 1, 'm': {'a': [1, 2]}}))
    # (c) `q: !prev p` where q ALREADY holds a mapping with content of its own: "every other path keeps its value" - the moved subtree is merged
    # into q, q's own keys stay - also when the source was an element of a list or a child of a `!del` mapping (inherited delete marks are stale)
    out.append(dict(text=True, kind='prev_word', stages=['{defaults: [{driver: pg, pool: 5}, {driver: sqlite}], db: {host: localhost, port: 5432}, other: 1}', '{db: !prev "defaults[0]"}'],
                    expect={'defaults': [{'driver': 'sqlite'}], 'db': {'host': 'localhost', 'port': 5432, 'driver': 'pg', 'pool': 5}, 'other': 1}))
    out.append(dict(text=True, kind='prev_word', stages=['{p: !del {x: {u: 1}, keep: 0}, q: {x: {v: 2}, y: 3}}', '{q: !prev p.x}'],
                    expect={'p': {'keep': 0}, 'q': {'x': {'v': 2}, 'y': 3, 'u': 1}}))
    out.append(dict(text=True, kind='prev_word', stages=['{defaults: [{driver: pg}], db: {host: localhost}}', '{defaults: !append [{driver: sqlite}]}', '{db: !prev "defaults[1]"}'],
                    expect={'defaults': [{'driver': 'pg'}], 'db': {'host': 'localhost', 'driver': 'sqlite'}}))
    # (d) elements keep their identity - their merge-control marks included - through an !append: a later stage that addresses them by index
    # meets the same priorities as without the append
    out.append(dict(text=True, kind='prev_word', stages=['{servers: [{host: alpha, port: !force 80}, !weak {host: beta, port: 81}], name: demo}', '{servers: !append [{host: gamma, port: 82}]}',
                                                          '{servers: {0: {port: 8080}, 1: {port: 8081}}}'],
                    expect={'servers': [{'host': 'alpha', 'port': 80}, {'host': 'beta', 'port': 8081}, {'host': 'gamma', 'port': 82}], 'name': 'demo'}))
    out.append(dict(text=True, kind='prev_word', stages=['{opts: [!weak {mode: fast, level: 1}]}', '{opts: !append [a]}', '{opts: !append [b]}', '{opts: {0: !del {mode: slow}}}'],
                    expect={'opts': [{'mode': 'slow'}, 'a', 'b']}))
    inc = [dict(files={'ext.yaml': 'plugins: !append [viz, net]\npaths: {search: !extend [/opt/x]}\n'},
                outer=['{plugins: [core, io], paths: {search: [/usr/share/app]}}'], included=['ext.yaml'],
                expect={'plugins': ['core', 'io', 'viz', 'net'], 'paths': {'search': ['/usr/share/app', '/opt/x']}}),
           dict(files={'ext.yaml': 'plugins: !append [viz]\n---\nplugins: !append [last]\nmoved: !prev old\n'},
                outer=['{plugins: [core], old: {deep: [1, 2]}}'], included=['ext.yaml'],
                expect={'plugins': ['core', 'viz', 'last'], 'moved': {'deep': [1, 2]}}),
           dict(files={'a.yaml': 'l: !append [2]\n', 'b.yaml': 'l: !append [3]\nq: !prev k\n'},
                outer=['{l: [1], k: {z: 0}}'], included=['a.yaml', 'b.yaml'], expect={'l': [1, 2, 3], 'q': {'z': 0}})]
    for c in inc:
        out.append(dict(text=True, kind='include_ops', **c))
    return out


def judge_text(case):
    from awesomeyaml.builder import Builder
    from awesomeyaml.config import Config
    try:
        if case['kind'] == 'prev_word':
            b = Builder()
            for i, t in enumerate(case['stages']):
                b.add_source(t, raw_yaml=True, filename=f'<s{i}>')
            got = base.to_plain(b.build())
        else:
            from .C06 import Sandbox
            with Sandbox() as sb:
                for nm, t in case['files'].items():
                    sb.write('d/' + nm, t)
                main = sb.write('d/main.yaml', '\n'.join('--- !include ' + f for f in case['included']) + '\n')
                b = Builder()
                for i, t in enumerate(case['outer']):
                    b.add_source(t, raw_yaml=True, filename=os.path.join(sb.dir, 'd', 'outer%d.yaml' % i))
                b.add_source(main)
                got = base.to_plain(b.build())
    except Exception as e:
        return dict(case=case, reason='the operators must see the previous content; the build failed', error=type(e).__name__ + ': ' + str(e)[:200])
    if unordered(got) != unordered(case['expect']):
        return dict(case=case, reason=('!prev must move the subtree its TEXT names' if case['kind'] == 'prev_word' else
                                       'operators inside a top-level included file must act on the config built by the earlier outer stages'), got=repr(got)[:400])
    return None


def spec_app_corr(rep, scen):
    """the reference of C16_append_end_to_end against the implementation: `!append` at a path through mappings of a tag-free base that holds a
    list there.  Coq evaluates Proofs.AppendE2E.app_at on the plain data of the base and compares it (content AND key order) with what
    Builder.build returned; a disagreement is a concrete failing input."""
    from .. import ser
    items, shown = [], []
    for c in scen:
        if c['kind'] != 'append' or not c.get('path') or any(not isinstance(k, str) for k in c['path']):
            continue
        bp = oracles.doc_plain(c['base'])
        tgt = oracles.lookup(bp, tuple(c['path']))
        if not isinstance(tgt, list):
            continue
        texts = [gen.render(c['base']), gen.render(c['newer'])]
        kind, root = oracles.build(texts)
        intern = ser.Interner()
        try:
            got = f'(Some {ser.plain_term(base.to_plain(root), intern)})' if kind == 'ok' else 'None'
            els = ser.coq_list(ser.plain_term(oracles.doc_plain(e), intern) for e in c['els'])
            items.append(f'({ser.plain_term(bp, intern)}, {ser.path_term(c["path"], intern)}, {els}, {got})')
        except ValueError:
            continue
        shown.append(c)
    hdr = 'From AY Require Import Model.Eq Spec.Update Proofs.AppendE2E.\nOpen Scope Z_scope.\n'
    chk = ('fun c : plain * path * list plain * option plain => match app_at (fst (fst (fst c))) (snd (fst (fst c))) (snd (fst c)), snd c with '
           'Some X, Some x => plain_eqb X x | Some _, None => false | None, _ => false end')
    bad, errors_, wall, cmd = common.run_case_files('c16a', hdr, items, chk, shard=200)
    rep.checker_cmds.append(cmd)
    rep.count('append spec: cases (list reached through mappings of a tag-free base)', len(items))
    rep.oblige(f'T3 correspondence Proofs.AppendE2E.app_at (the reference of C16_append_end_to_end) = Builder.build on {len(items)} append scenarios (content and key order)',
               not bad and not errors_ and len(items) > 0, (f'{len(bad)} disagreements' if bad else '') + (errors_[0]['log'][-400:] if errors_ else ''))
    for i in bad[:3]:
        c = shown[i]
        rep.violation('the build differs from "previous list followed by the appended elements, every other path kept" (app_at)',
                      dict(oracle='app_at spec', input=dict(kind=c['kind'], base=gen.render(c['base']), newer=gen.render(c['newer']), path=c.get('path'), els=[gen.render(e) for e in c.get('els', [])])))
    rep.extra.setdefault('correspondence', []).append(dict(label='app_at spec', cases=len(items), disagreements=len(bad), coq_wall_s=round(wall, 1)))


def run(rep, tier, rng):
    rep.rule = ('(a) merge histories using !append/!extend/!prev/!clear (correspondence); (b) structured scenarios on a random base document: operator at an existing / missing / '
                'non-list target at any depth (through mappings and list indices), empty and nested appended lists, !prev of any subtree, two operators in one document. '
                'non-trivial = target at depth >= 2 or non-empty appended list; distinct = hash of the texts')
    base.proofs(rep, 'Properties.C16', THEOREMS, deps=['Proofs.FactsOk'])
    t2.run(rep, ['vi', 'ck'], tier)
    n = 500 if tier == 'quick' else 6000
    base.merge_t3(rep, rng, ['ops'], n, 'ops', 2, 4, extra_cases=[("{l: [1, 2, 3]}", '{z: !prev "l[0]"}'),
                                                                       # !clear inside a list whose older counterpart protects an element: the protected element is re-indexed onto the path the alias had
                                                                       ("{b: [{r: 1, c: 2}, !force {b: 0}]}", "{b: [!clear ]}"),
                                                                       ("{a: 1, r: {a: false, r: [3, 7]}, b: [{r: 1, c: 2}, !force {c: !weak true, b: 0, a: y}]}", "{c: 2, r: {c: [y, '', true], a: [1], r: !extend []}}", "{a: {a: !weak {a: 3}, b: [!force 0, 3, y]}, r: y, b: [!clear ]}")])
    scen = []
    for _ in range(700 if tier == 'quick' else 10000):
        c = gen_case(rng)
        if c:
            scen.append(c)
    for c in scen:
        rep.count('scenario ' + c['kind'])
        rep.case(gen.render(c['base']) + gen.render(c['newer']), len(c.get('path', c.get('target', []))) >= 2 or bool(c.get('els')),
                 sample=dict(kind=c['kind'], base=gen.render(c['base']), newer=gen.render(c['newer'])))
    spec_app_corr(rep, scen)
    base.run_oracle(rep, 'C16', 'raw-text scenarios: !prev paths that read as YAML words; operators inside top-level included files', text_cases(), judge_text)
    base.run_oracle(rep, 'C16', 'operator scenarios vs reference', scen, judge, known_sig=known_sig,
                    show=lambda c: dict(kind=c['kind'], base=gen.render(c['base']), newer=gen.render(c['newer']), path=c.get('path'), target=c.get('target'),
                                        els=[gen.render(e) for e in c.get('els', [])], plain=(gen.render(c['plain']) if c.get('plain') else None)))


def replay(data):
    r = data['replay']
    if 'input' in r:
        from ..reparse import parse_doc
        x = r['input']
        if x.get('text') or (isinstance(x.get('case'), dict) and x['case'].get('text')):
            f = judge_text(x.get('case', x))
            print('replay:', 'property FAILS' if f else 'property holds', f or '')
            return 1 if f else 0
        c = dict(kind=x['kind'], base=parse_doc(x['base']), newer=parse_doc(x['newer']), path=x.get('path'), target=x.get('target'), plain=(parse_doc(x['plain']) if x.get('plain') else None),
                 els=[parse_doc('{q: ' + e + '}')[2][0][1] for e in x.get('els', [])])
        f = judge(c)
        print('replay:', 'property FAILS' if f else 'property holds', f or '')
        return 1 if f else 0
    print('no input to replay; broken obligations:', r)
    return 1
