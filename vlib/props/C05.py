"""C05 — merging is local: wrapping, sibling independence, frame."""
from .. import common, gen, mergecorr, oracles, t2
from . import base

THEOREMS = ['C05_path_irrelevant', 'C05_wrap', 'C05_sim_content', 'C05_fuel_irrelevant', 'C05_frame', 'C05_frame_at_any_depth', 'C05_mentioned_key_is_recursive_merge', 'C05_sibling_independent', 'C05_merged_at_any_depth']


def tag_kind(n):
    return (n[1] or '').split(':')[0].split('{')[0]


def has_abs_refs(n):
    """!prev targets are absolute by design: wrapping must not be judged on documents that use them"""
    if tag_kind(n) in ('!prev', '!xref', '!clear'):
        return True
    cs = [c for _, c in n[2]] if n[0] == 'map' else (n[2] if n[0] == 'seq' else [])
    return any(has_abs_refs(c) for c in cs)


def outcome(texts):
    k, r = oracles.build_plain(texts)
    return (k, base.typed(r)) if k == 'ok' else (k, None)


def judge_wrap(case):
    docs, keys = case['docs'], case['keys']
    plain = outcome([gen.render(d) for d in docs])
    wrapped = outcome([gen.render(oracles.wrap(d, keys)) for d in docs])
    if plain[0] != 'ok' or wrapped[0] != 'ok':
        if plain[0] != wrapped[0]:
            return dict(unwrapped_outcome=plain[0], wrapped_outcome=wrapped[0], keys=keys)
        return None
    k, r = oracles.build_plain([gen.render(oracles.wrap(d, keys)) for d in docs])
    k0, r0 = oracles.build_plain([gen.render(d) for d in docs])
    sub = oracles.lookup(r, tuple(keys))
    if sub is KeyError:
        # the documented idiom: an explicitly deleted, emptied mapping is removed from its parent (a root cannot be removed)
        if r0 == {} or r0 == []:
            return None
        return dict(reason='wrapped result lacks the wrapping key', keys=keys, unwrapped=repr(r0), wrapped=repr(r))
    if base.typed(sub) != base.typed(r0):
        return dict(reason='result under the wrapping key differs from the unwrapped result', keys=keys, unwrapped=repr(r0), under_key=repr(sub))
    # nothing else may appear
    cur = r
    for kk in keys:
        if list(cur.keys()) != [kk]:
            return dict(reason='extra entries next to the wrapping key', wrapped=repr(r))
        cur = cur[kk]
    return None


def judge_sibling(case):
    docs, extra = case['docs'], case['extra']
    k0, r0 = oracles.build_plain([gen.render(d) for d in docs])
    with_sib = []
    for d, e in zip(docs, extra):
        with_sib.append(('map', d[1], d[2] + ([('zz', e)] if e is not None else [])))
    k1, r1 = oracles.build_plain([gen.render(d) for d in with_sib])
    if k0 != 'ok' or k1 != 'ok':
        # a sibling may introduce an error of its own; only judge when both succeed
        return None
    r1 = {k: v for k, v in r1.items() if k != 'zz'}
    if base.typed(r1) != base.typed(r0):
        return dict(reason='adding a sibling key changed the merged value at other paths', without=repr(r0), with_sibling=repr(r1))
    return None


def judge_frame(case):
    """paths that the newer document does not mention, and that are not below a deleting node of it, come out unchanged"""
    old, new = case['docs']
    k0, r0 = oracles.build_plain([gen.render(old)])
    k1, r1 = oracles.build_plain([gen.render(old), gen.render(new)])
    if k0 != 'ok' or k1 != 'ok':
        return None

    def walk(o_plain, res_plain, n, path):
        # n: newer gen node (a mapping, not deleting)
        if not isinstance(o_plain, dict) or not isinstance(res_plain, dict):
            return None
        nd = dict(n[2])
        for k, v in o_plain.items():
            if k not in nd:
                if k not in res_plain or base.typed(res_plain[k]) != base.typed(v):
                    return dict(reason='a path not mentioned by the newer document changed', path=path + [k], before=repr(v), after=repr(res_plain.get(k, KeyError)))
            else:
                c = nd[k]
                if c[0] == 'map' and c[1] is None:
                    f = walk(v, res_plain.get(k), c, path + [k])
                    if f:
                        return f
        return None
    if new[1] is not None:
        return None
    return walk(r0, r1, new, [])


def gen_history_frame(rng):
    """d2 does not mention a.x (it writes the sibling a.y, possibly with a priority tag on the container): the competition between
    d1 and d3 at a.x must come out as if d2 had not been there"""
    T = ['', '!weak ', '!force ']
    t1, t2, t3 = rng.choice(T), rng.choice(T), rng.choice(T)
    d1 = '{a: {x: %s1, y: 2}, k: 0}' % t1 if rng.random() < 0.5 else '{a: %s{x: 1, y: 2}, k: 0}' % t1
    d2 = '{a: %s{y: 3}}' % t2 if rng.random() < 0.7 else '{a: %s{y: 3, w: {u: 1}}, k: 1}' % t2
    d3 = '{a: {x: %s9}}' % t3 if rng.random() < 0.5 else '{a: %s{x: 9}}' % t3
    return dict(frame3=True, texts=[d1, d2, d3])


def judge_history_frame(case):
    d1, d2, d3 = case['texts']
    k1, r1 = oracles.build_plain([d1, d2, d3])
    k2, r2 = oracles.build_plain([d1, d3])
    if k1 != 'ok' or k2 != 'ok':
        return dict(reason='unexpected failure', with_d2=k1, without_d2=k2)
    if base.typed(r1['a'].get('x')) != base.typed(r2['a'].get('x')):
        return dict(reason='a stage that does not mention a.x (and deletes nothing) changed how a later stage merges at a.x', with_d2=repr(r1), without_d2=repr(r2))
    return None


def gen_list_index_frame(rng):
    """a mapping with ONE integer key merged into a list: only the position it names (negative keys count from the end) may change, however
    the key is spelled and however deep the documents are wrapped"""
    n = rng.randint(1, 4)
    elems = [rng.choice(['%d' % (10 * (j + 1)), '{kind: e%d, size: %d}' % (j, j)]) for j in range(n)]
    i = rng.randint(-n, n - 1)
    new = rng.choice(['99', 'x', '!del {kind: fc}', '[7]'])
    keys = rng.sample(['w', 'outer', 'l'], rng.randint(0, 2))
    return dict(listidx=True, elems=elems, index=i, new=new, keys=keys)


def judge_list_index_frame(case):
    n, i = len(case['elems']), case['index']
    def wrap(t):
        for k in reversed(case['keys']):
            t = '{%s: %s}' % (k, t)
        return t
    def unwrap(r):
        for k in case['keys']:
            r = r[k]
        return r
    older = wrap('{l: [' + ', '.join(case['elems']) + '], name: base}')
    k0, r0 = oracles.build_plain([older])
    got = {}
    for spelled in (i, i % n):
        k1, r1 = oracles.build_plain([older, wrap('{l: {%d: %s}}' % (spelled, case['new']))])
        if k0 != 'ok' or k1 != 'ok':
            return dict(case=case, reason='unexpected failure', older=k0, merged=k1, message=repr(r1)[:200])
        before, after = unwrap(r0)['l'], unwrap(r1)['l']
        if len(after) != n or unwrap(r1).get('name') != 'base':
            return dict(case=case, reason='a mapping merged into a list through one index changed the length of the list or a sibling key', before=repr(before), after=repr(after))
        for j in range(n):
            if j != i % n and base.typed(after[j]) != base.typed(before[j]):
                return dict(case=case, spelled=spelled, reason='a list position not mentioned by the newer document changed', position=j, before=repr(before), after=repr(after))
        if base.typed(after[i % n]) == base.typed(before[i % n]):
            return dict(case=case, spelled=spelled, reason='the list position named by the newer document did not change', before=repr(before), after=repr(after))
        got[spelled] = after
    if base.typed(got[i]) != base.typed(got[i % n]):
        return dict(case=case, reason='the merged list depends on how the index is spelled (negative / non-negative)', negative=repr(got[i]), positive=repr(got[i % n]))
    return None


def del_sibling_cases():
    """a deleting newer mapping met by an older mapping that holds one protected (higher-priority) entry among plain ones: what happens to
    a plain entry must not depend on WHERE the protected sibling stands among the keys"""
    import itertools
    out = []
    for sib in ('1', '!weak 1', '!force 1', '!force {k: 1}', '{k: !force 1}'):
        for order in itertools.permutations([('x', sib), ('y', '2'), ('w', '{m: 4, n: [5, 6]}')]):
            out.append(dict(delsib=True, older='{a: {' + ', '.join(f'{k}: {v}' for k, v in order) + '}}', newer='{a: !del {z: 3}}', wrapped=(len(out) % 3 == 0)))
    return out


def judge_del_sibling(case):
    o, n = case['older'], case['newer']
    if case.get('wrapped'):
        o, n = '{t: %s}' % o, '{t: %s}' % n
    k, r = oracles.build_plain([o, n])
    if k != 'ok':
        return dict(case=case, reason='unexpected failure', got=k, message=repr(r)[:200])
    a = (r['t'] if case.get('wrapped') else r)['a']
    if a.get('z') != 3 or 'y' in a or 'w' in a:
        return dict(case=case, reason="below a '!del' mapping a plain entry's fate depends on a sibling: the plain entries y / w must be gone and z must be there", got=repr(a))
    return None


SPELL = {'a': ('!del', "!metadata{{'delete': True}}", '{x: 5}'), 'b': ('!merge', "!metadata{{'delete': False}}", '{z: 6}'),
         'c': ('!del', "!metadata{{'delete': True}}", '{x: 7}'), 'd': ('!force', "!metadata{{'priority': 1}}", '{x: 8}'), 'e': ('!weak', "!metadata{{'priority': -1}}", '{y: 9}')}


def spelling_cases():
    """the merged value at a path must not depend on HOW sibling paths spell their tags: every subset of the entries of one document written in
    the long `!metadata{{..}}` spelling (up to five such blocks in one source), unwrapped and wrapped"""
    import itertools
    out = []
    for r in range(0, 6):
        for sub in itertools.combinations('abcde', r):
            out.append(dict(spelling=True, long=list(sub), keys=[]))
    out.append(dict(spelling=True, long=list('abcde'), keys=['w']))
    out.append(dict(spelling=True, long=list('abd'), keys=['p', 'q']))
    return out


def judge_spelling(case):
    basetext = '{' + ', '.join(f'{k}: {{x: 1, y: 2}}' for k in 'abcde') + '}'
    def newer(long):
        return '{' + ', '.join(f'{k}: {SPELL[k][1] if k in long else SPELL[k][0]} {SPELL[k][2]}' for k in 'abcde') + '}'
    def wrap(t):
        for k in reversed(case['keys']):
            t = '{%s: %s}' % (k, t)
        return t
    ref = outcome([wrap(basetext), wrap(newer([]))])
    got = outcome([wrap(basetext), wrap(newer(case['long']))])
    if ref[0] != 'ok':
        return dict(case=case, reason='control: the short spelling must build', got=ref[0])
    if got != ref:
        return dict(case=case, reason='the long spelling of the tags of SOME entries changed the outcome (of these or of sibling entries)', text=newer(case['long']), short=repr(ref)[:300], long=repr(got)[:300])
    return None


def run(rep, tier, rng):
    rep.rule = ('merge histories (2-4 documents, all merge-control tags incl. !del/!merge/priorities/!new/!unsafe) built at depth 0 and wrapped under 1-3 keys drawn from the SAME '
                'alphabet as the document keys; with/without an extra sibling key; frame check on 2-document histories. non-trivial = history with a deleting or prioritised node '
                'below the top level; distinct = hash')
    base.proofs(rep, 'Properties.C05', THEOREMS, deps=['Proofs.FactsOk'])
    t2.run(rep, ['hpo'], tier)
    n = 300 if tier == 'quick' else 5000
    cases = base.merge_t3(rep, rng, ['del', 'all'], n, 'local', 2, 4)
    wraps, sibs, frames = [], [], []
    for c in cases:
        docs = c.get('docs')
        if not docs or any(has_abs_refs(d) for d in docs):
            continue
        keys = [rng.choice(gen.KEYS) for _ in range(rng.randint(1, 3))]
        wraps.append(dict(docs=docs, keys=keys))
        sibs.append(dict(docs=docs, extra=[gen.gen_node(rng, gen.PROFILES['all'], 1, {}) if rng.random() < 0.7 else None for _ in docs]))
        if len(docs) >= 2:
            frames.append(dict(docs=docs[:2]))
        nontriv = any(any(t in gen.render(d)[1:] for t in ('!del', '!force', '!weak', '[')) for d in docs)
        rep.case('\n'.join(gen.render(d) for d in docs) + repr(keys), nontriv, sample=dict(docs=[gen.render(d) for d in docs], wrap_keys=keys))
    # list operators at the top level under keys that contain path metacharacters (a single path component must never be re-parsed as a textual path)
    from ..reparse import parse_doc
    for a, b in (("{'lr-steps': [1, 2], 'a.b': [1, 2], a: {b: [5]}, 'x[0]': [0]}", "{'lr-steps': !extend [3], 'a.b': !extend [3], 'x[0]': !append [1]}"),
                 ("{'m-n': {k: [1]}}", "{'m-n': {k: !append [2]}}"), ("{'p.q': [1]}", "{'p.q': !append [2], r: !extend [3]}")):
        for keys in (['w'], ['outer', 'inner']):
            wraps.append(dict(docs=[parse_doc(a), parse_doc(b)], keys=keys))
    show = lambda c: {k: ([gen.render(d) for d in v] if k == 'docs' else ([gen.render(e) if e else None for e in v] if k == 'extra' else v)) for k, v in c.items()}
    base.run_oracle(rep, 'C05', 'wrapped vs unwrapped build', wraps, judge_wrap, show=show)
    base.run_oracle(rep, 'C05', 'sibling independence', sibs, judge_sibling, show=show)
    base.run_oracle(rep, 'C05', 'sibling independence of the tag SPELLING (up to five {{..}} blocks in one source)', spelling_cases(), judge_spelling)
    base.run_oracle(rep, 'C05', 'frame: unmentioned paths unchanged', frames, judge_frame, show=show)
    base.run_oracle(rep, 'C05', "sibling independence under a '!del' mapping: a protected sibling at every position among the keys", del_sibling_cases(), judge_del_sibling)
    base.run_oracle(rep, 'C05', 'frame on lists: a mapping with one integer key (negative keys included) changes exactly the position it names',
                    [gen_list_index_frame(rng) for _ in range(60 if tier == 'quick' else 1000)], judge_list_index_frame)
    base.run_oracle(rep, 'C05', 'frame across a history: a stage that does not mention a path does not influence later merges at it',
                    [gen_history_frame(rng) for _ in range(80 if tier == 'quick' else 1500)], judge_history_frame)


def replay(data):
    r = data['replay']
    if 'input' in r:
        from ..reparse import parse_doc
        x = r['input']
        if x.get('spelling') or (isinstance(x.get('case'), dict) and x['case'].get('spelling')):
            f = judge_spelling(x.get('case', x))
            print('replay:', 'property FAILS' if f else 'property holds', f or '')
            return 1 if f else 0
        if x.get('delsib') or (isinstance(x.get('case'), dict) and x['case'].get('delsib')):
            f = judge_del_sibling(x.get('case', x))
            print('replay:', 'property FAILS' if f else 'property holds', f or '')
            return 1 if f else 0
        if x.get('listidx') or (isinstance(x.get('case'), dict) and x['case'].get('listidx')):
            f = judge_list_index_frame(x.get('case', x))
            print('replay:', 'property FAILS' if f else 'property holds', f or '')
            return 1 if f else 0
        if x.get('frame3'):
            f = judge_history_frame(x)
            print('replay:', 'property FAILS' if f else 'property holds', f or '')
            return 1 if f else 0
        docs = [parse_doc(t) for t in x['docs']]
        if 'keys' in x:
            f = judge_wrap(dict(docs=docs, keys=x['keys']))
        elif 'extra' in x:
            f = judge_sibling(dict(docs=docs, extra=[parse_doc('{q: ' + e + '}')[2][0][1] if e else None for e in x['extra']]))
        else:
            f = judge_frame(dict(docs=docs))
        print('replay:', 'property FAILS' if f else 'property holds', f or '')
        return 1 if f else 0
    print('no input to replay; broken obligations:', r)
    return 1
