"""C15 — merge laws: deterministic, idempotent (last document), empty-neutral, key-order- and flag-neutral."""
import copy
from .. import common, gen, mergecorr, oracles, t2, ser
from . import base

THEOREMS = ['C15_idempotent_last_plain', 'C15_empty_neutral_plain', 'C15_update_idempotent', 'C15_unsafe_marks_neutral_plain', 'C15_unsafe_marks_anywhere_neutral', 'C15_key_order_neutral_plain', 'C15_permutation_is_peqv',
            'C15_idempotent_last_prioritised', 'C15_prioritised_update_idempotent', 'C15_prioritised_self_merge', 'C15_empty_neutral_prioritised', 'C15_key_order_neutral_prioritised', 'C15_permutation_is_peqvp', 'C15_marks_neutral_prioritised', 'C15_empty_mapping_neutral_general']


def tagk(n):
    return (n[1] or '').split(':')[0].split('{')[0]


def has_remove_idiom(n):
    """the explicit remove-this-key idiom: an explicitly deleting node whose content is empty / falsy"""
    t = tagk(n)
    if t == '!del':
        if n[0] == 'sc':
            v = oracles.scalar_value(n[2])
            if not v:
                return True
        elif not n[2]:
            return True
    cs = [c for _, c in n[2]] if n[0] == 'map' else (n[2] if n[0] == 'seq' else [])
    return any(has_remove_idiom(c) for c in cs)


def could_empty(n):
    """a deleting mapping below which everything could be removed by a later identical document is also the idiom in effect;
    conservative: any explicit !del mapping/list whose children are all removals"""
    return has_remove_idiom(n)


def list_with_lower_priority_element(n, inherited=None):
    """D18 trigger: a replacing container (a list, or a mapping tagged !del) holding an element whose (effective) priority is lower than
    the container's or lower than standard - the list pre-filter drops such an element whenever an older node of at least standard
    priority sits at the same path. A priority tag on an ancestor applies to all descendants."""
    own = oracles.tag_priority(n[1])
    here = inherited if inherited is not None else (own if own is not None else 0)
    pass_down = inherited if inherited is not None else own
    kids = n[2] if n[0] == 'seq' else ([c for _, c in n[2]] if n[0] == 'map' else [])
    if n[0] == 'seq' or (n[0] == 'map' and tagk(n) == '!del'):
        for c in kids:
            pc = oracles.tag_priority(c[1])
            eff = pass_down if pass_down is not None else (pc if pc is not None else 0)
            if eff < max(here, 0):
                return True
    return any(list_with_lower_priority_element(c, pass_down) for c in kids)


def plain_outcome(docs):
    """outcome class and merged data; mappings compared as Python compares dicts (key order is not part of the value)"""
    k, r = oracles.build_plain([gen.render(d) for d in docs])
    return (k, unordered(r)) if k == 'ok' else (k, None)


def unordered(x):
    if isinstance(x, dict):
        return ('d', sorted((repr(k), unordered(v)) for k, v in x.items()))
    if isinstance(x, list):
        return ('l', [unordered(v) for v in x])
    return base.typed(x)


def judge_deterministic(docs):
    texts = [gen.render(d) for d in docs]
    outs = []
    for _ in range(2):
        k, r = oracles.build(texts)
        if k == 'ok':
            outs.append(('ok', ser.node_term(r, ser.Interner())))
        else:
            outs.append((k, None))
    if outs[0] != outs[1]:
        return dict(reason='building the same sources twice gives different trees', first=outs[0][0], second=outs[1][0])
    return None


def judge_repeat_last(docs):
    a = plain_outcome(docs)
    b = plain_outcome(docs + [docs[-1]])
    if a[0] != b[0] or a != b:
        return dict(reason='repeating the last document changed the result', once=a, twice=b)
    return None


def judge_empty(case):
    docs, pos = case['docs'], case['pos']
    a = plain_outcome(docs)
    b = plain_outcome(docs[:pos] + [('map', None, [])] + docs[pos:])
    if a != b:
        return dict(reason=f'an empty mapping document inserted at position {pos} changed the result', without=a, with_empty=b)
    return None


def has_negative_key(n):
    """a mapping with a negative integer key can address one list element under two spellings (-1 and len-1): with such a
    mapping the ORDER of its entries decides which value the element gets - key permutation is not meaning-preserving there"""
    if n[0] == 'map':
        # ... and so does the remove-this-entry idiom on an integer key (a value-less !del / an emptied !del node): merged onto a list it
        # removes the element and shifts the later ones, so the entries written after it address other elements
        removal = any(isinstance(k, int) for k, _ in n[2]) and any(c[1] == '!del' and (c[0] == 'sc' or not c[2]) for _, c in n[2])
        return removal or any((isinstance(k, int) and k < 0) or has_negative_key(c) for k, c in n[2])
    if n[0] == 'seq':
        return any(has_negative_key(c) for c in n[2])
    return False


def permute(n, rng):
    if n[0] == 'map':
        items = [(k, permute(c, rng)) for k, c in n[2]]
        rng.shuffle(items)
        return ('map', n[1], items)
    if n[0] == 'seq':
        return ('seq', n[1], [permute(c, rng) for c in n[2]])
    return n


def judge_perm(case):
    a_k, a = oracles.build_plain([gen.render(d) for d in case['docs']])
    b_k, b = oracles.build_plain([gen.render(d) for d in case['perm']])
    if a_k != b_k:
        return dict(reason='permuting keys changed the outcome class', original=a_k, permuted=b_k)
    if a_k == 'ok' and unordered(a) != unordered(b):
        return dict(reason='permuting keys changed more than the order of keys', original=repr(a), permuted=repr(b))
    return None


def has_empty(n):
    if n[0] == 'sc':
        return n[2] == ''
    return any(has_empty(c) for c in ([c for _, c in n[2]] if n[0] == 'map' else n[2]))


def mark(n, rng, tag, p=0.25):
    """put `tag` on random untagged nodes (never on value-less scalars)"""
    t = n[1]
    if t is None and rng.random() < p and not (n[0] == 'sc' and n[2] == ''):
        t = tag
    if n[0] == 'map':
        return ('map', t, [(k, mark(c, rng, tag, p)) for k, c in n[2]])
    if n[0] == 'seq':
        return ('seq', t, [mark(c, rng, tag, p) for c in n[2]])
    return ('sc', t, n[2])


def judge_flag(case):
    a = plain_outcome(case['docs'])
    b = plain_outcome(case['marked'])
    if a != b:
        return dict(reason=f'marking nodes {case["tag"]} changed the merged data', unmarked=a, marked=b)
    return None


def list_paths(n, prefix=(), inherited=None, protected_only=False):
    """paths of lists; with protected_only: lists holding an element of HIGHER (effective) priority than the list itself (D5)"""
    out = set()
    own = oracles.tag_priority(n[1])
    here = inherited if inherited is not None else (own if own is not None else 0)
    pass_down = inherited if inherited is not None else own
    if n[0] == 'seq':
        prot = False
        for c in n[2]:
            pc = oracles.tag_priority(c[1])
            eff = pass_down if pass_down is not None else (pc if pc is not None else 0)
            prot = prot or eff > here
        if prot or not protected_only:
            out.add(prefix)
        for i, c in enumerate(n[2]):
            out |= list_paths(c, prefix + (i,), pass_down, protected_only)
    elif n[0] == 'map':
        for kk, c in n[2]:
            out |= list_paths(c, prefix + (str(kk),), pass_down, protected_only)
    return out


def eff_prio(n, inherited):
    own = oracles.tag_priority(n[1])
    return inherited if inherited is not None else (own if own is not None else 0), (inherited if inherited is not None else own)


def max_below(n, inherited):
    """highest effective priority strictly below n"""
    _, down = eff_prio(n, inherited)
    kids = n[2] if n[0] == 'seq' else ([c for _, c in n[2]] if n[0] == 'map' else [])
    best = None
    for c in kids:
        here, _ = eff_prio(c, down)
        m = max_below(c, down)
        for x in (here, m):
            if x is not None and (best is None or x > best):
                best = x
    return best


def protecting_containers(n, prefix=(), inherited=None):
    """paths of containers that hold, at any depth, a node of strictly higher effective priority than their own"""
    out = set()
    here, down = eff_prio(n, inherited)
    if n[0] in ('map', 'seq'):
        m = max_below(n, inherited)
        if m is not None and m > here:
            out.add(prefix)
        for kk, c in (n[2] if n[0] == 'map' else list(enumerate(n[2]))):
            out |= protecting_containers(c, prefix + (str(kk) if n[0] == 'map' else kk,), down)
    return out


def replacing_paths(n, prefix=()):
    """paths of the replacing containers of a document: lists and mappings tagged !del"""
    out = set()
    if n[0] == 'seq' or (n[0] == 'map' and tagk(n) == '!del'):
        out.add(prefix)
    if n[0] in ('map', 'seq'):
        for kk, c in (n[2] if n[0] == 'map' else list(enumerate(n[2]))):
            out |= replacing_paths(c, prefix + (str(kk) if n[0] == 'map' else kk,))
    return out


def known_sig(k, failing):
    """D18 seen through idempotence: the repeated document has a replacing container holding an element of lower priority than the container"""
    if k['id'] == 'D18' and 'repeating the last document' in failing['failure'].get('reason', ''):
        return list_with_lower_priority_element(failing['input'][-1])
    if k['id'] == 'D5' and 'repeating the last document' in failing['failure'].get('reason', ''):
        docs = failing['input']
        # the protected element may come from an earlier document or from the repeated document itself (it is "older" the second time)
        older = set()
        for d in docs:
            older |= list_paths(d, protected_only=True)
        if older & list_paths(docs[-1]):
            return True
        # the same root cause one level up: the protected node sits anywhere BELOW an older container (mapping or list) that the repeated document
        # meets with a replacing container (a list, a !del mapping): the first merge cannot replace wholesale, the second one can
        prot = set()
        for d in docs:
            prot |= protecting_containers(d)
        return bool(prot & replacing_paths(docs[-1]))
    return False


def run(rep, tier, rng):
    rep.rule = ('merge histories of 1-4 documents over priority / !del / !merge tags; each is (1) built twice, (2) built with its last document repeated, (3) with an empty mapping inserted '
                'at every position, (4) with the keys of every mapping permuted, (5) with random untagged nodes marked !unsafe / !new. non-trivial = history of >= 2 documents with >= 1 tag; '
                'distinct = hash of the texts')
    base.proofs(rep, 'Properties.C15', THEOREMS, deps=['Proofs.FactsOk'])
    t2.run(rep, ['hpo', 'ck', 'prop'] if tier == 'quick' else ['hpo', 'ck', 'adopt', 'prop', 'eff'], tier)
    # the loader model on documents whose only tags are safety marks and metadata (what C15_unsafe_marks_anywhere_neutral quantifies over)
    from .. import loadcorr
    sprof = gen.Profile(p_tag=0.4, tags=['!unsafe'], meta=0.15, underscore=True, p_intkey=0.15, max_depth=4)
    litems = []
    for _ in range(150 if tier == 'quick' else 2500):
        r = loadcorr.run_case(gen.gen_doc(rng, sprof), safe=rng.random() < 0.6)
        if r['ok']:
            litems.append(r['term'])
    bad, errors, wall, cmd = common.run_case_files('c15l', loadcorr.HEADER, litems, loadcorr.CHECK)
    rep.checker_cmds.append(cmd)
    rep.oblige(f'T3 correspondence Model.Loader.load_doc = awesomeyaml.yaml.parse on {len(litems)} documents tagged only with !unsafe / !metadata (all raw flags of every node)',
               bool(litems) and not bad and not errors, (f'{len(bad)} disagreements' if bad else '') + (errors[0]['log'][-400:] if errors else ''))
    n = 300 if tier == 'quick' else 5000
    cases = base.merge_t3(rep, rng, ['del', 'all', 'prio'], n, 'laws', 1, 4,
                          extra_cases=[("{b: [1]}", "!unsafe {b: !weak [2, 3, 4]}"), ("{}", "!del {b: 2}"), ("!del {b: 2}", "!del {b: 2}")])
    hist = [c['docs'] for c in cases if 'docs' in c]
    # histories whose FIRST document carries a root tag (a later identical / empty document then meets a deleting root)
    for docs in list(hist)[:len(hist) // 3]:
        d0 = docs[0]
        if d0[1] is None and d0[2]:
            hist.append([('map', rng.choice(['!del', '!del', '!merge', '!force', '!weak']), d0[2])] + docs[1:])
    hist += [[('map', '!del', [('b', ('sc', None, '2'))])],
             [('map', None, []), ('map', '!del', [('b', ('sc', None, '2'))])],
             [('map', None, [('a', ('sc', None, '1'))]), ('map', '!del', [('b', ('sc', None, '2'))])]]
    hist.append([('map', None, [('c', ('seq', None, [('sc', None, '2')]))]),
                 ('map', None, [('c', ('map', '!del', [('c', ('sc', None, '1')), (0, ('sc', '!weak', 'null'))]))])])     # D18 seen through idempotence
    hist.append([('map', None, [('l', ('seq', None, [('sc', None, '1'), ('map', '!force', [('r', ('sc', None, '1'))])]))]),
                 ('map', None, [('l', ('seq', None, [('map', '!merge', [('b', ('sc', None, '0'))]), ('sc', None, '5')]))])])     # D5 seen through idempotence
    # a list whose priority differs from the incoming, longer list (the container's hidden priority after the first merge decides the second)
    from ..reparse import parse_doc
    for a, b in (("{a: !force [1]}", "{a: [7, 8, 9]}"), ("{a: [1]}", "{a: !weak [7, 8, 9]}"), ("{t: {s: !force [w], lr: 1}}", "{t: {s: [a, b, c, d]}}"),
                 ("{a: !force {l: [1]}}", "{a: {l: [7, 8, 9]}}"), ("{a: !weak [1]}", "{a: [7, 8, 9]}")):
        hist.append([parse_doc(a), parse_doc(b)])
    # D5 one level up: a protected node below an older MAPPING that the repeated document meets with a list (first merge: key-wise, second: wholesale)
    hist.append([parse_doc("{a: !del {1: !merge {b: !force 1.5}, r: {a: ''}}}"), parse_doc("!del {a: [{r: 3}, 0]}")])
    # a mapping whose integer keys lie beyond the end of the list it meets: an error for every order of its entries and every repetition
    for a, b in (("{a: [1, 2, 3], b: 0}", "{a: {5: x, 7: y}}"), ("{a: [1]}", "{a: {2: x, 1: y}}"), ("{l: [0]}", "{l: {1: a, 3: b, 2: c}}"), ("{t: {l: [1, 2]}}", "{t: {l: {2: p, 4: q}}}")):
        hist.append([parse_doc(a), parse_doc(b)])
    # value-less entries (`key:`) reach a container as ONE shared None; a tagged container builds its children through a memo keyed by object identity
    E = lambda: ('sc', None, '')
    hist.append([('map', None, [('a', ('sc', None, '1')), ('extra', ('map', None, [('seed', E()), ('tag', E()), ('n', ('sc', None, '3'))]))])])
    hist.append([('map', None, [('extra', ('map', None, [('seed', E()), ('tag', E()), ('n', ('sc', None, '3'))])), ('o', ('map', None, [('p', E()), ('q', E()), ('r', E())]))]),
                 ('map', None, [('extra', ('map', None, [('n', ('sc', None, '4')), ('u', E()), ('v', E())]))])])
    hist.append([('map', None, [('extra', ('map', None, [('seed', E()), ('tag', E())]))]), ('map', None, [('extra', ('map', '!del', [('z', ('sc', None, '1'))]))])])
    show = lambda docs: [gen.render(d) for d in docs]
    for docs in hist:
        tags = sum(len(gen.tag_hist(d)) for d in docs)
        rep.case('\n'.join(show(docs)), len(docs) >= 2 and tags >= 1, sample=show(docs))
    base.run_oracle(rep, 'C15', 'deterministic (build twice, full trees incl. flags)', hist, judge_deterministic, show=show)
    base.run_oracle(rep, 'C15', 'repeat the last document', hist, judge_repeat_last,
                    in_domain=lambda docs: not could_empty(docs[-1]), known_sig=known_sig, show=show)
    emp = [dict(docs=docs, pos=p) for docs in hist for p in range(len(docs) + 1)]
    base.run_oracle(rep, 'C15', 'empty mapping document at every position', emp, judge_empty,
                    show=lambda c: dict(docs=show(c['docs']), pos=c['pos']))
    perm = [dict(docs=docs, perm=[permute(d, rng) for d in docs]) for docs in hist]
    base.run_oracle(rep, 'C15', 'key permutation', perm, judge_perm, in_domain=lambda c: not any(has_negative_key(d) for d in c['docs']),
                    show=lambda c: dict(docs=show(c['docs']), perm=show(c['perm'])))
    flg = []
    for docs in hist:
        for tag in ('!unsafe', '!new'):
            flg.append(dict(docs=docs, marked=[mark(d, rng, tag) for d in docs], tag=tag))
            if any(has_empty(d) for d in docs):
                flg.append(dict(docs=docs, marked=[mark(d, rng, tag, p=1.0) for d in docs], tag=tag))
    base.run_oracle(rep, 'C15', '!unsafe / !new markers are data-neutral', flg, judge_flag, show=lambda c: dict(docs=show(c['docs']), marked=show(c['marked']), tag=c['tag']))


def replay(data):
    r = data['replay']
    if 'input' in r:
        from ..reparse import parse_doc
        x = r['input']
        name = r.get('oracle', '')
        if isinstance(x, list):
            docs = [parse_doc(t) for t in x]
            f = judge_deterministic(docs) if 'deterministic' in name else judge_repeat_last(docs)
        elif 'pos' in x:
            f = judge_empty(dict(docs=[parse_doc(t) for t in x['docs']], pos=x['pos']))
        elif 'perm' in x:
            f = judge_perm(dict(docs=[parse_doc(t) for t in x['docs']], perm=[parse_doc(t) for t in x['perm']]))
        else:
            f = judge_flag(dict(docs=[parse_doc(t) for t in x['docs']], marked=[parse_doc(t) for t in x['marked']], tag=x['tag']))
        print('replay:', 'property FAILS' if f else 'property holds', f or '')
        return 1 if f else 0
    print('no input to replay; broken obligations:', r)
    return 1
