"""C11 — evaluation yields plain Python data and leaves the source tree reusable."""
import copy
from .. import common, gen, evalcorr, oracles, ser, mergecorr
from . import base
from . import C07

THEOREMS = ['C11_shape_plain', 'C11_recorded_value_is_result']


def find_node(v, path=(), seen=None):
    """path of the first awesomeyaml node object found anywhere inside an evaluated config"""
    import functools
    from awesomeyaml.nodes.node import ConfigNode
    seen = set() if seen is None else seen
    if id(v) in seen:
        return None
    seen.add(id(v))
    if isinstance(v, ConfigNode):
        return path
    if isinstance(v, evalcorr.Rec):
        return find_node(list(v.args), path + ('<args>',), seen) or find_node(v.kwargs, path + ('<kwargs>',), seen)
    if isinstance(v, functools.partial):
        return find_node(list(v.args), path + ('<args>',), seen) or find_node(v.keywords, path + ('<kwargs>',), seen)
    if isinstance(v, dict):
        for k, a in v.items():
            r = find_node(k, path + ('<key>',), seen) or find_node(a, path + (k,), seen)
            if r is not None:
                return r
    if isinstance(v, (list, tuple)):
        for i, a in enumerate(v):
            r = find_node(a, path + (i,), seen)
            if r is not None:
                return r
    return None


def fingerprint(root):
    """everything the source tree holds: kinds, flags, targets (as they are: a string stays a string), content"""
    from awesomeyaml.nodes.function import FunctionNode
    from .C09 import tree_paths
    out = []
    for p, n in tree_paths(root).items():
        extra = None
        if isinstance(n, FunctionNode):
            extra = (type(n._func).__name__, str(n._func) if isinstance(n._func, str) else repr(n._func))
        info = dict(n.ayns.node_info)
        info['metadata'] = dict(info['metadata'])
        out.append((p, type(n).__name__, repr(sorted(info.items(), key=str)), extra, base.typed(n._get_native_value()) if hasattr(n, '_dyn_base') else None))
    return out


def shape_ok(v, tree_plain):
    """mappings -> attribute dicts with the same keys in the same order, lists -> lists, scalars exact"""
    from awesomeyaml.utils import Bunch
    if isinstance(tree_plain, dict):
        if not isinstance(v, dict) or list(v.keys()) != list(tree_plain.keys()):
            return False
        if not isinstance(v, Bunch):
            return False
        return all(shape_ok(v[k], tree_plain[k]) for k in tree_plain)
    if isinstance(tree_plain, list):
        return type(v) is list and len(v) == len(tree_plain) and all(shape_ok(a, b) for a, b in zip(v, tree_plain))
    if isinstance(tree_plain, tuple):      # a dynamic node: anything but a node
        return True
    return type(v) is type(tree_plain) and (v == tree_plain or v != v)


def tree_shape(root):
    """plain image of the merged tree with dynamic nodes as opaque markers"""
    from awesomeyaml.nodes.composed import ComposedNode
    from awesomeyaml.nodes.function import FunctionNode
    from awesomeyaml.nodes.scalar import ConfigScalarMarker
    from awesomeyaml.nodes.xref import XRefNode
    def go(n):
        if isinstance(n, FunctionNode):
            return ('dyn',)
        if isinstance(n, ComposedNode) and type(n).__name__ not in ('ConfigList', 'ConfigDict', 'ConfigTuple'):
            return ('dyn',)   # list-typed nodes with their own evaluation (!path, !rec, ...) - also after a merge promoted them
        if isinstance(n, ComposedNode):
            if isinstance(n, list):
                return [go(c) for c in n._children.values()]
            return {base.plain_key(k): go(c) for k, c in n._children.items()}
        if type(n).__name__.startswith('ConfigScalar('):
            return n._get_native_value()
        return ('dyn',)
    return go(root)


def judge(texts):
    from awesomeyaml.config import Config
    from awesomeyaml.utils import Bunch
    C07.install()
    k, root = oracles.build(texts)
    if k != 'ok' or root is None:
        return None
    before = fingerprint(root)
    shape = tree_shape(root)
    try:
        cfg = base.with_watchdog(lambda: Config(root))
    except base.Hang:
        return dict(texts=texts, reason='evaluation does not terminate')
    except Exception:
        if fingerprint(root) != before:
            return dict(texts=texts, reason='a failed evaluation modified the merged source tree')
        return None
    p = find_node(cfg)
    if p is not None:
        return dict(texts=texts, reason='the evaluated config contains an awesomeyaml node', where=[str(c) for c in p])
    if not shape_ok(cfg, shape):
        return dict(texts=texts, reason='the evaluated config does not mirror the merged tree (attribute dicts / lists / exact scalar types, same keys and order)',
                    tree=repr(shape)[:300], got=repr(cfg)[:300])
    def attr_access(m, where=()):
        """every mapping of the result, at any depth: m.name is m['name'] for every key that is an identifier"""
        if isinstance(m, dict):
            for kk in m:
                if isinstance(kk, str) and kk.isidentifier() and not hasattr(Bunch, kk):
                    try:
                        same = getattr(m, kk) is m[kk]
                    except AttributeError:
                        same = False
                    if not same:
                        return where + (kk,)
                r = attr_access(m[kk], where + (kk,))
                if r:
                    return r
        elif isinstance(m, list):
            for i, a in enumerate(m):
                r = attr_access(a, where + (i,))
                if r:
                    return r
        return None
    bad = attr_access(cfg)
    if bad:
        return dict(texts=texts, reason='cfg.name is not cfg["name"] (attribute access to a mapping entry)', key=[str(x) for x in bad])
    if fingerprint(root) != before or cfg.ayns.source is not root:
        return dict(texts=texts, reason='evaluating modified the merged source tree that the config keeps')
    # Config evaluates a deep copy of the tree: the result must be what evaluating the tree itself gives
    from .C10 import canon
    try:
        from awesomeyaml.eval_context import EvalContext
        direct = EvalContext().evaluate(root)
        if canon(direct) != canon(cfg):
            return dict(texts=texts, reason='the config (evaluated from a deep copy) differs from the evaluation of the merged tree itself', config=repr(cfg)[:300], direct=repr(direct)[:300])
    except Exception as e:
        return dict(texts=texts, reason='the tree evaluates through Config but not directly', message=str(e)[:200])
    if fingerprint(root) != before:
        return dict(texts=texts, reason='evaluating modified the merged source tree')
    # evaluating the source again gives an equal result
    try:
        cfg2 = Config(cfg.ayns.source)
    except Exception as e:
        return dict(texts=texts, reason='evaluating the kept source again fails', message=str(e)[:200])
    from .C10 import canon
    if canon(cfg) != canon(cfg2):
        return dict(texts=texts, reason='evaluating the kept source again gives a different result', first=repr(cfg)[:300], second=repr(cfg2)[:300])
    # mutating the evaluated config never changes the source
    def scribble(v, depth=0):
        if depth > 6:
            return
        if isinstance(v, dict):
            for kk in list(v.keys()):
                scribble(v[kk], depth + 1)
            v['__scribble__'] = 1
        elif isinstance(v, list):
            for a in v:
                scribble(a, depth + 1)
            v.append('__scribble__')
    scribble(cfg)
    if fingerprint(root) != before:
        return dict(texts=texts, reason='mutating the evaluated config changed the source tree')
    # ... and the source can still be merged with a later stage exactly like a fresh build of all stages
    return None


def judge_pydata(data):
    """trees built from Python data share node objects between equal small values (nodes_memo): every entry must still be evaluated"""
    from awesomeyaml.config import Config
    try:
        cfg = Config(copy.deepcopy(data))
    except Exception as e:
        return dict(data=repr(data), reason='building a config from plain Python data failed', message=str(e)[:200])
    if base.typed(dict(cfg)) != base.typed(data) and base.typed(base_plain(cfg)) != base.typed(data):
        return dict(data=repr(data), reason='the evaluated config does not mirror the data it was built from', got=repr(cfg))
    return None


def base_plain(v):
    if isinstance(v, dict):
        return {k: base_plain(a) for k, a in v.items()}
    if isinstance(v, list):
        return [base_plain(a) for a in v]
    return v


def judge_staged(case):
    """evaluate between two merge steps: the final result must equal the one-shot build"""
    from awesomeyaml.builder import Builder
    from awesomeyaml.config import Config
    C07.install()
    texts = case['texts']
    try:
        b = Builder()
        for i, t in enumerate(texts[:-1]):
            b.add_source(t, raw_yaml=True, filename=f'<s{i}>')
        root = b.build()
        Config(root)                       # an evaluation in between
        b.add_source(texts[-1], raw_yaml=True, filename=f'<s{len(texts) - 1}>')
        staged = ('ok', Config(b.build()))
    except Exception as e:
        staged = (type(e).__name__, None)
    try:
        k, root2 = oracles.build(texts)
        oneshot = ('ok', Config(root2)) if k == 'ok' else (k, None)
    except Exception as e:
        oneshot = (type(e).__name__, None)
    from .C10 import canon
    if staged[0] != oneshot[0] or (staged[0] == 'ok' and canon(staged[1]) != canon(oneshot[1])):
        return dict(texts=texts, reason='evaluating the merged tree between two merge steps changed the outcome of the later merge',
                    staged=repr(staged)[:300], one_shot=repr(oneshot)[:300])
    return None


SYMBOL_SCRIPT = '''
T1 = %r
b = Builder(); b.add_source(T1, raw_yaml=True, filename='a.yaml'); cfg1 = Config(b.build())
first = plain(cfg1)
b2 = Builder(); b2.add_source('{v: !eval "%s + 1", w: !fstr "x{%s}"}', raw_yaml=True, filename='b.yaml')
other = plain(Config(b2.build(), eval_ctx=EvalContext(eval_symbols={%r: %d})))
again = plain(Config(cfg1.ayns.source))
third = plain(Config(cfg1.ayns.source, eval_ctx=EvalContext()))
result = dict(first=first, other=other, again=again, third=third)
'''


def gen_symbol_case(rng):
    """the kept source evaluated again AFTER an unrelated evaluation with private eval symbols that shadow one of its names"""
    name = rng.choice(['scale', 'width', 'k'])
    val, sym = rng.randint(2, 9), rng.randint(10, 99)
    t1 = '{%s: %d, model: {w: !eval "%s * 2", name: !fstr "net-x{%s}", dims: [!eval "%s + 1", 2]}, z: 0}' % (name, val, name, name, name)
    expect = {name: val, 'model': {'w': val * 2, 'name': 'net-x%d' % val, 'dims': [val + 1, 2]}, 'z': 0}
    return dict(script=SYMBOL_SCRIPT % (t1, name, name, name, sym), expect=expect, other={'v': sym + 1, 'w': 'x%d' % sym})


def judge_rec_files(case):
    """several !rec nodes in one tree: each builds (and discards) a temporary sub-tree while the tree is being evaluated; the evaluated config must
    hold, under each key, exactly the merged content of the files named there"""
    from awesomeyaml.config import Config
    from awesomeyaml.builder import Builder
    from .C06 import Sandbox
    import yaml as pyyaml
    files = {'one.yaml': {'name': 'one', 'sizes': [1, 2], 'opts': {'k': 'one', 'flag': True}}, 'two.yaml': {'name': 'two', 'sizes': [3, 4], 'opts': {'k': 'two', 'flag': False}},
             'three.yaml': {'name': 'three', 'extra': {'deep': [{'a': 1}, {'b': 2}]}}}
    with Sandbox() as sb:
        for nm, d in files.items():
            sb.write('d/' + nm, pyyaml.safe_dump(d, default_flow_style=True, sort_keys=False))
        main = sb.write('d/main.yaml', case['text'])
        try:
            b = Builder()
            b.add_source(main)
            cfg = Config(b.build())
        except Exception as e:
            return dict(case=case, reason='unexpected failure', message=type(e).__name__ + ': ' + str(e)[:200])
    got = base_plain(dict(cfg))
    if base.typed(got) != base.typed(case['expect']):
        return dict(case=case, reason='the evaluated config does not mirror the tree (content produced by !rec nodes)', got=repr(got)[:400])
    return None


def rec_file_cases():
    f1 = {'name': 'one', 'sizes': [1, 2], 'opts': {'k': 'one', 'flag': True}}
    f2 = {'name': 'two', 'sizes': [3, 4], 'opts': {'k': 'two', 'flag': False}}
    f3 = {'name': 'three', 'extra': {'deep': [{'a': 1}, {'b': 2}]}}
    m12 = {'name': 'two', 'sizes': [3, 4], 'opts': {'k': 'two', 'flag': False}}
    return [dict(recfiles=True, text='first: !rec [one.yaml]\nsecond: !rec [two.yaml]\nthird: !rec [three.yaml]\nplain: {x: 1}\n', expect={'first': f1, 'second': f2, 'third': f3, 'plain': {'x': 1}}),
            dict(recfiles=True, text='a: {inner: !rec [two.yaml]}\nb: !rec [one.yaml, two.yaml]\nc: [!rec [three.yaml], !rec [one.yaml]]\n', expect={'a': {'inner': f2}, 'b': m12, 'c': [f3, f1]})]


def gen_pydata(rng):
    def val(d):
        r = rng.random()
        if d >= 2 or r < 0.5:
            return rng.choice([0, 1, 1, 8, 8, 'x', 'x', True, None, 1.5])
        if r < 0.75:
            return [val(d + 1) for _ in range(rng.randint(0, 4))]
        return {k: val(d + 1) for k in rng.sample(['lr', 'warmup', 'decay', 'momentum', 'sizes'], rng.randint(1, 4))}
    return {k: val(0) for k in rng.sample(['optim', 'sizes', 'tags', 'model'], rng.randint(1, 3))}


def run(rep, tier, rng):
    rep.rule = ('merged trees with plain and dynamic nodes (recording !call/!bind, references); each is evaluated, searched for node objects, compared in shape with the tree, the kept '
                'source fingerprinted before/after, evaluated again, the result scribbled over; configs built from Python data with repeated values; staged builds with an evaluation '
                'between merge steps. non-trivial = tree of depth >= 2; distinct = hash')
    C07.install()
    base.proofs(rep, 'Properties.C11', THEOREMS, deps=['Proofs.FactsOk'])
    n = 400 if tier == 'quick' else 6000
    cases, hangs = base.eval_t3(rep, rng, n, dict(cycles=False, named=True), 'plaindata')
    inputs = [c['texts'] for c in cases]
    for t in inputs:
        rep.case('\n'.join(t), any('{' in x[1:] for x in t), sample=t)
    base.run_oracle(rep, 'C11', 'no node in the result / shape / source untouched / re-evaluation / mutation isolation', inputs, judge)
    py = [gen_pydata(rng) for _ in range(200 if tier == 'quick' else 3000)]
    base.run_oracle(rep, 'C11', 'several !rec nodes (temporary sub-trees built during evaluation)', rec_file_cases(), judge_rec_files)
    base.run_oracle(rep, 'C11', 'promoted list-typed nodes: Config (deep copy) = direct evaluation', [["{out: [!force results, tmp, !force logs], k: 1}", "{out: !path [scratch, cache, old, extra]}"],
                                                                                                     ["{out: [!force a, b], f: [1, !force 2, 3]}", "{out: !path:cwd [x, y, z], f: !path [p, q, r, s]}"]], judge)
    under = [["{_target_: x, _meta_: {_k: 1, n: [{_steps_: 2}, 3]}, a: {_p: !call:vmod.u1 {x: 1}}}"], ["{m: {_a: 1}}", "{m: {_b: {_c: [1, {_d: 2}]}}}"]]
    base.run_oracle(rep, 'C11', 'keys that start with an underscore', under, judge)
    from .. import scenrun
    sym = [gen_symbol_case(rng) for _ in range(12 if tier == 'quick' else 100)]
    for c, r in zip(sym, scenrun.run_batch([dict(script=c['script']) for c in sym])):
        c['res'] = r

    def judge_sym(c):
        r = c['res']
        if r['kind'] != 'ok':
            return dict(reason='the scenario failed / crashed', got=r['kind'], err=r.get('err'))
        x = r['result']
        if x['first'] != c['expect'] or x['other'] != c['other']:
            return dict(reason='unexpected first evaluation', first=x['first'], other=x['other'], expected=c['expect'])
        if x['again'] != x['first'] or x['third'] != x['first']:
            return dict(reason='evaluating the kept source again (after an unrelated evaluation with private eval symbols) gives a different result', first=x['first'], again=x['again'], fresh_context=x['third'])
        return None
    base.run_oracle(rep, 'C11', 'the kept source re-evaluated after an unrelated evaluation with private eval symbols', sym, judge_sym, show=lambda c: dict(symbols=True, script=c['script']))
    base.run_oracle(rep, 'C11', 'configs built from Python data', py, judge_pydata, show=lambda d: dict(pydata=repr(d)))
    staged = []
    for _ in range(150 if tier == 'quick' else 2000):
        t1 = rng.choice(['vmod.u1', 'vmod.u2'])
        a = rng.randint(1, 9)
        staged.append(dict(texts=[f'{{out: !call:{t1} {{x: {a}}}, k: 1}}', rng.choice([f"{{out: !call:{t1}{{{{'delete': False, 'priority': -1}}}} {{y: 2}}}}", '{out: {y: 3}}', f'{{out: !call:{t1} {{z: 4}}}}', '{k: 2}'])]))
    base.run_oracle(rep, 'C11', 'the kept source stays reusable for later merges', staged, judge_staged, show=lambda c: dict(staged=True, **c))


def replay(data):
    r = data['replay']
    if 'input' in r:
        x = r['input']
        if isinstance(x, dict) and (x.get('recfiles') or (isinstance(x.get('case'), dict) and x['case'].get('recfiles'))):
            f = judge_rec_files(x.get('case', x))
            print('replay:', 'property FAILS' if f else 'property holds', f or '')
            return 1 if f else 0
        if isinstance(x, dict) and x.get('symbols'):
            from .. import scenrun
            print('replay (run the script in a fresh interpreter):', scenrun.run_batch([dict(script=x['script'])])[0])
            return 1
        if isinstance(x, dict) and x.get('staged'):
            f = judge_staged(x)
        elif isinstance(x, dict) and 'pydata' in x:
            f = judge_pydata(eval(x['pydata']))
        else:
            f = judge(x)
        print('replay:', 'property FAILS' if f else 'property holds', f or '')
        return 1 if f else 0
    print('no input to replay; broken obligations:', r)
    return 1
