"""C19 — deepcopy and pickle reproduce any node tree, independent of the original."""
import copy, pickle
from .. import common, gen, evalcorr, oracles, ser, mergecorr
from . import base
from . import C07
from .C09 import tree_paths

THEOREMS = ['C19_deepcopy_same_explicit', 'C19_deepcopy_content', 'C19_deepcopy_exact', 'C19_parsed_document_copy_exact', 'C19_parsed_document_copy_interchangeable']
EXPLICIT = ['priority', 'delete', 'allow_new', 'safe', 'default_safe', 'metadata', 'source_file', 'idx']
IMPLICIT = ['implicit_delete', 'implicit_allow_new', 'implicit_safe']


def stale_inherited(nodes, p):
    """the ORIGINAL node at p does not carry what its parent currently hands down (a merge re-flagged the parent and the propagation stopped early):
    a round trip that rebuilds the parent through its constructor re-adopts the child, and nothing in the property asks for stale inherited
    flags to be reproduced (what they mean for merging / evaluation / dumping is judged by the other parts of this oracle)"""
    if not p or p[:-1] not in nodes:
        return False
    parent, child = nodes[p[:-1]], nodes[p]
    try:
        kw = parent._get_child_kwargs()
    except Exception:
        return False
    d = child.__dict__
    if d.get('_implicit_delete') != kw.get('implicit_delete') or d.get('_implicit_allow_new') != kw.get('implicit_allow_new'):
        return True
    return d.get('_implicit_safe') is not False and d.get('_implicit_safe') != kw.get('implicit_safe')


def describe(root, keys):
    """{path: (type name, selected node_info, native scalar, target)} including key nodes"""
    from awesomeyaml.nodes.function import FunctionNode
    out = {}
    for p, n in tree_paths(root).items():
        info = n.ayns.node_info
        sel = {k: (dict(info[k]) if k == 'metadata' else info[k]) for k in keys}
        tgt = None
        if isinstance(n, FunctionNode):
            tgt = str(n._func)
        if hasattr(n, 'ref_point'):
            tgt = ('ref', n.ref_point)
        val = base.typed(n._get_native_value()) if hasattr(n, '_dyn_base') else None
        out[p] = (type(n).__name__, sel, val, tgt)
    return out


def all_ids(root):
    from awesomeyaml.nodes.composed import ComposedNode
    ids = set()
    stack = [root]
    while stack:
        n = stack.pop()
        ids.add(id(n))
        if isinstance(n, ComposedNode):
            for k, c in n._children.items():
                ids.add(id(k)) if hasattr(k, 'ayns') else None
                stack.append(c)
    return ids


def copies(root):
    yield 'deepcopy', copy.deepcopy(root)
    for proto in (pickle.DEFAULT_PROTOCOL, 2):
        yield f'pickle(protocol={proto})', pickle.loads(pickle.dumps(root, protocol=proto))


def cycle_cases():
    return [dict(cycle=True, kind=k) for k in ('self_dict', 'self_list', 'mutual', 'child_to_root')]


def judge_cycle(case):
    """user metadata may hold references to nodes of the tree itself: the copy must be one tree again (the reference leads to the COPY of that node,
    not to a private duplicate and not to the original)"""
    text = '{a: {k: [1, 2], m: {z: 0}}, b: [3, {y: 4}]}'
    k, root = oracles.build([text])
    if k != 'ok':
        return dict(case=case, reason='setup failed')
    a, b = root['a'], root['b']
    if case['kind'] == 'self_dict':
        a.ayns.metadata['me'] = a
        probes = [(('a',), 'me', ('a',))]
    elif case['kind'] == 'self_list':
        b.ayns.metadata['me'] = b
        probes = [(('b',), 'me', ('b',))]
    elif case['kind'] == 'mutual':
        a.ayns.metadata['other'] = b
        b.ayns.metadata['other'] = a
        probes = [(('a',), 'other', ('b',)), (('b',), 'other', ('a',))]
    else:
        a['m'].ayns.metadata['top'] = root
        probes = [(('a', 'm'), 'top', ())]
    def at(r, p):
        for c in p:
            r = r[c]
        return r
    for how, cp in copies(root):
        for holder, key, target in probes:
            try:
                ref = at(cp, holder).ayns.metadata[key]
            except Exception as e:
                return dict(case=case, how=how, reason='the metadata entry is missing in the copy', error=type(e).__name__)
            if ref is not at(cp, target):
                return dict(case=case, how=how, reason='a node referenced from user metadata was duplicated (or is the original) instead of being the copy of that node',
                            is_original=ref is at(root, target))
    return None


def judge(case):
    from awesomeyaml.config import Config
    from awesomeyaml.nodes.node import ConfigNode
    import contextlib
    C07.install()
    texts = case['texts']
    names = [None] * len(texts) if case.get('no_filename') else None
    def fresh():
        from awesomeyaml.builder import Builder
        b = Builder()
        for i, t in enumerate(texts):
            b.add_source(t, raw_yaml=True, filename=(None if case.get('no_filename') else f'<s{i}>'))
        return b
    try:
        root = fresh().build() if case.get('merged', True) else fresh().stages[0]
    except Exception:
        return None
    if root is None:
        return None
    ctx = ConfigNode.default_filename('/configs/generated/overrides.yaml') if case.get('ambient') else contextlib.nullcontext()
    before = describe(root, EXPLICIT + IMPLICIT)
    with ctx:
        made = list(copies(root))
    if describe(root, EXPLICIT + IMPLICIT) != before:
        return dict(texts=texts, reason='copying modified the original')
    for how, cp in made:
        if cp is root or (all_ids(cp) & all_ids(root)):
            return dict(texts=texts, how=how, reason='the copy shares a node with the original')
        a, b = describe(root, EXPLICIT), describe(cp, EXPLICIT)
        if list(a.keys()) != list(b.keys()):
            return dict(texts=texts, how=how, reason='the copy has different paths / order', original=[str(p) for p in a][:8], copy=[str(p) for p in b][:8])
        for p in a:
            if a[p] != b[p]:
                return dict(texts=texts, how=how, reason='a node of the copy differs in kind, content, priority, safety, target, metadata or source file', path=[str(c) for c in p],
                            original=repr(a[p])[:300], copy=repr(b[p])[:300])
        if how.startswith('pickle'):
            ai, bi = describe(root, IMPLICIT), describe(cp, IMPLICIT)
            nodes = tree_paths(root)
            for p in ai:
                if ai[p] != bi[p] and not any(stale_inherited(nodes, p[:i]) for i in range(1, len(p) + 1)):
                    return dict(texts=texts, how=how, reason='a pickle round-trip changed inherited flags', path=[str(c) for c in p], original=repr(ai[p][1]), copy=repr(bi[p][1]))
    # ... and is written out (dumped) exactly like the original: tags, reference points, values of every node kind
    from awesomeyaml import yaml as ayaml
    try:
        ref_dump = ayaml.dump(root)
    except Exception:
        ref_dump = None
    if ref_dump is not None:
        for how, cp in made:
            try:
                d2 = ayaml.dump(cp)
            except Exception as e:
                return dict(texts=texts, how=how, reason='the original can be dumped, the copy cannot', error=type(e).__name__ + ': ' + str(e)[:200])
            if d2 != ref_dump:
                return dict(texts=texts, how=how, reason='the copy is dumped differently from the original', original=ref_dump[:300], copy=d2[:300])
    # the copy merges and evaluates exactly like the original
    extra = case.get('extra')
    from .C10 import canon
    def outcome(tree):
        try:
            if extra is not None:
                b2 = mergecorr.parse_stages([extra])
                b2.preprocess()
                tree = tree.ayns.merge(b2.stages[0])
            return ('ok', canon(Config(tree)))
        except Exception as e:
            return (type(e).__name__, None)
    ref = outcome(fresh().build() if case.get('merged', True) else fresh().stages[0])
    for how, cp in made:
        got = outcome(cp)
        if got != ref:
            return dict(texts=texts, how=how, extra=extra, reason='the copy does not merge / evaluate like the original', original=repr(ref)[:300], copy=repr(got)[:300])
    # mutating either never affects the other
    cp = copy.deepcopy(root)
    snap_root = describe(root, EXPLICIT + IMPLICIT)
    try:
        cp['__new__'] = 1
        for k in list(cp.keys())[:1]:
            del cp[k]
    except Exception:
        pass
    if describe(root, EXPLICIT + IMPLICIT) != snap_root:
        return dict(texts=texts, reason='mutating the copy changed the original')
    # ... also through the one public way to annotate an existing node: its metadata dict, on every node (leaves and key nodes included)
    for how, cp in list(copies(root)):
        snap_root = describe(root, EXPLICIT + IMPLICIT)
        for n in tree_paths(cp).values():
            n.ayns.metadata['__annotated__'] = how
        if describe(root, EXPLICIT + IMPLICIT) != snap_root:
            return dict(texts=texts, how=how, reason='annotating (ayns.metadata) the nodes of the copy changed the metadata of the original')
        snap_cp = describe(cp, EXPLICIT + IMPLICIT)
        for n in tree_paths(root).values():
            n.ayns.metadata['__annotated_original__'] = 1
        if describe(cp, EXPLICIT + IMPLICIT) != snap_cp:
            return dict(texts=texts, how=how, reason='annotating (ayns.metadata) the nodes of the original changed the metadata of the copy')
        for n in tree_paths(root).values():
            n.ayns.metadata.pop('__annotated_original__', None)
    return None


def run(rep, tier, rng):
    rep.rule = ('parsed stages and merged trees over all node kinds and flag combinations (priority/!del/!merge/!new/!notnew/!unsafe tags, metadata, call/bind nodes, references, '
                'placeholders, safe=False sources); each is deep-copied and pickled (two protocols), compared node by node, merged with a further document and evaluated, and mutated. '
                'non-trivial = tree with >= 1 tag; distinct = hash')
    C07.install()
    base.proofs(rep, 'Properties.C19', THEOREMS, deps=['Proofs.FactsOk'])
    n = 300 if tier == 'quick' else 5000
    # correspondence of the copy model: deepcopy(tree) = Model.Eval.recopy tree ; pickle round trip = identity
    items_dc, items_pk, inputs = [], [], []
    for i in range(n):
        prof = ['all', 'notnew', 'func', 'safe', 'prio'][i % 5]
        docs = gen.gen_history(rng, gen.PROFILES[prof], 1, 3)
        texts = [gen.render(d) for d in docs]
        try:
            b = mergecorr.parse_stages(texts)
            tree = b.build() if i % 2 else b.stages[0]
        except Exception:
            continue
        if tree is None:
            continue
        try:
            intern = ser.Interner()
            t0 = ser.node_term(tree, intern)
            items_dc.append(f'({t0}, {ser.node_term(copy.deepcopy(tree), intern)})')
            nodes = tree_paths(tree)
            if any(stale_inherited(nodes, p) for p in nodes):
                rep.count('pickle correspondence: tree with stale inherited flags (a function node is rebuilt through its constructor: not judged against "pickle = identity")')
            else:
                items_pk.append(f'({t0}, {ser.node_term(pickle.loads(pickle.dumps(tree)), intern)})')
        except (ValueError, ser.Inconsistent):
            continue
        case = dict(texts=texts, merged=bool(i % 2))
        if rng.random() < 0.6:
            case['extra'] = gen.render(gen.related_doc(rng, gen.PROFILES[prof], docs[-1]))
        inputs.append(case)
        rep.case('\n'.join(texts), any('!' in t for t in texts), sample=case if len(inputs) < 4 else None)
    hdr = 'From AY Require Import Model.Eval Model.Eq Proofs.CopyLemmas.\nOpen Scope Z_scope.\n'
    bad, errors, wall, cmd = common.run_case_files('c19d', hdr, items_dc, 'fun c : node * node => node_eqb (recopy (fst c)) (snd c)')
    rep.checker_cmds.append(cmd)
    rep.oblige(f'T3 correspondence Model.Eval.recopy = copy.deepcopy on {len(items_dc)} trees (all raw flags)', not bad and not errors,
               (f'{len(bad)} disagreements, first texts {inputs[bad[0]]["texts"] if bad[0] < len(inputs) else "?"}' if bad else '') + (errors[0]['log'][-500:] if errors else ''))
    bad, errors, wall, cmd = common.run_case_files('c19p', hdr, items_pk, 'fun c : node * node => node_eqb (repickle (fst c)) (snd c)')
    rep.checker_cmds.append(cmd)
    rep.oblige(f'T3 correspondence pickle round trip = identity on {len(items_pk)} trees (all raw flags)', not bad and not errors,
               (f'{len(bad)} disagreements, first texts {inputs[bad[0]]["texts"] if bad[0] < len(inputs) else "?"}' if bad else '') + (errors[0]['log'][-500:] if errors else ''))
    # nodes without a source file copied inside a default_filename context
    for _ in range(40 if tier == 'quick' else 400):
        d = gen.gen_doc(rng, gen.PROFILES['all'], root_tag_ok=False)
        inputs.append(dict(texts=[gen.render(d)], merged=False, no_filename=True, ambient=True))
    inputs.append(dict(texts=["{model: !notnew {a: 1, opt: {lr: 1, momentum: 2}}, drop: !del {keep: {k: 1}}}"], merged=False, extra="{model: {opt: {zz: 5}}}"))
    # one node object at several positions of one list (YAML anchor + aliases); !path nodes (a reference point, dynamic components)
    for merged in (False, True):
        inputs.append(dict(texts=["{base: 1, other: 2, vals: [&r !xref base, 1, *r, !xref other, *r], m: {a: &q !force 5, b: *q}}"], merged=merged))
        inputs.append(dict(texts=["{name: exp, out: !path:cwd [runs, !xref name], p2: !path:file [a, !weak b], p3: !path:abs(/tmp) [x], p4: !path:parent(1) [c]}"], merged=merged, extra="{name: other}"))
        inputs.append(dict(texts=["{l: [&c !call:vmod.u1 {x: 1}, *c, 2]}"], merged=merged))
    base.run_oracle(rep, 'C19', 'references to nodes of the tree held in user metadata (cycles)', cycle_cases(), judge_cycle)
    base.run_oracle(rep, 'C19', 'copy equals original, is distinct, merges/evaluates alike, isolation', inputs, judge)


def replay(data):
    r = data['replay']
    if 'input' in r:
        x = r['input']
        if isinstance(x, dict) and (x.get('cycle') or (isinstance(x.get('case'), dict) and x['case'].get('cycle'))):
            f = judge_cycle(x.get('case', x))
        else:
            f = judge(x)
        print('replay:', 'property FAILS' if f else 'property holds', f or '')
        return 1 if f else 0
    print('no input to replay; broken obligations:', r)
    return 1
