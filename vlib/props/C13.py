"""C13 — !call / !bind pass arguments as Python would; function nodes merge by table."""
import os, sys, types, inspect, functools
from .. import common, gen, evalcorr, oracles, ser
from . import base
from . import C07

THEOREMS = ['C13_list_positions', 'C13_keywords', 'C13_gap', 'C13_beyond', 'C13_positions_reach_parameters',
            'C13_table_container', 'C13_table_string', 'C13_table_new_target', 'C13_table_same_target']


def install_targets():
    if 'c13mod' in sys.modules:
        return sys.modules['c13mod']
    m = types.ModuleType('c13mod')
    src = '''
def p2(a, b): return ('p2', a, b)
def d2(a, b=20): return ('d2', a, b)
def d3(a=1, b=2, c=3): return ('d3', a, b, c)
def va(a, b=2, *rest, k=0, **kw): return ('va', a, b, rest, k, sorted(kw.items()))
def ko(a, *, c=1): return ('ko', a, c)
def kwo(x=0, **kw): return ('kwo', x, sorted(kw.items()))
def star(*args): return ('star', args)
def none(): return ('none',)
'''
    exec(src, m.__dict__)
    for n in ('p2', 'd2', 'd3', 'va', 'ko', 'kwo', 'star', 'none'):
        m.__dict__[n].__module__ = 'c13mod'
    sys.modules['c13mod'] = m
    return m


TARGETS = ['p2', 'd2', 'd3', 'va', 'ko', 'kwo', 'star', 'none']


def sig_term(f, intern):
    """signature as Model.Func.signature"""
    kinds = {inspect.Parameter.POSITIONAL_ONLY: 'PosOnly', inspect.Parameter.POSITIONAL_OR_KEYWORD: 'PosOrKw', inspect.Parameter.VAR_POSITIONAL: 'VarPos',
             inspect.Parameter.KEYWORD_ONLY: 'KwOnly', inspect.Parameter.VAR_KEYWORD: 'VarKw'}
    ps = inspect.signature(f).parameters.values()
    return ser.coq_list(f'(mkP {intern(p.name)} {kinds[p.kind]} {"true" if p.default is not inspect.Parameter.empty else "false"})' for p in ps)


def reference_call(f, args):
    """what the property says the node must do: ('ok', result) | ('error',)"""
    params = list(inspect.signature(f).parameters.values())
    posnames = []
    for p in params:
        if p.kind not in (inspect.Parameter.POSITIONAL_ONLY, inspect.Parameter.POSITIONAL_OR_KEYWORD):
            break
        posnames.append(p.name)
    ints = {k: v for k, v in args.items() if isinstance(k, int)}
    strs = {k: v for k, v in args.items() if isinstance(k, str)}
    pos = []
    i = 0
    while i in ints:
        pos.append(ints.pop(i))
        i += 1
    kws = {}
    for k, v in ints.items():
        if k < 0 or k >= len(posnames):
            return ('error',)
        kws[posnames[k]] = v
    for k, v in strs.items():
        if k in kws:
            return ('error',)
        kws[k] = v
    try:
        return ('ok', f(*pos, **kws)), pos, kws
    except TypeError:
        return ('call-error', pos, kws)


def gen_args(rng, f):
    params = [p.name for p in inspect.signature(f).parameters.values() if p.kind in (inspect.Parameter.POSITIONAL_OR_KEYWORD, inspect.Parameter.KEYWORD_ONLY)]
    mode = rng.choice(['map', 'map', 'map', 'list', 'scalar', 'empty'])
    if mode == 'list':
        return 'list', [rng.randint(1, 99) for _ in range(rng.randint(0, 4))]
    if mode == 'scalar':
        return 'scalar', rng.randint(1, 99)
    if mode == 'empty':
        return 'map', {}
    keys = []
    n = rng.randint(0, 4)
    pool = [0, 1, 2, 3, 4] + params + params + ['zz']
    for _ in range(n):
        k = rng.choice(pool)
        if k not in keys:
            keys.append(k)
    return 'map', {k: rng.randint(1, 99) for k in keys}


def render_call(kind, target, mode, a):
    if mode == 'list':
        return f'!{kind}:c13mod.{target} [' + ', '.join(map(str, a)) + ']'
    if mode == 'scalar':
        return f'!{kind}:c13mod.{target} {a}'
    if not a:
        return f'!{kind}:c13mod.{target} {{}}'
    return f'!{kind}:c13mod.{target} {{' + ', '.join(f'{k}: {v}' for k, v in a.items()) + '}'


def judge_call(case):
    from awesomeyaml.config import Config
    m = install_targets()
    f = getattr(m, case['target'])
    mode, a = case['mode'], case['args']
    if mode == 'list':
        args = dict(enumerate(a))
    elif mode == 'scalar':
        args = {0: a}
    else:
        args = {(int(k) if isinstance(k, str) and k.lstrip('-').isdigit() else k): v for k, v in a.items()}
    text = '{r: ' + render_call(case['kind'], case['target'], mode, a if mode != 'map' else args) + '}'
    ref = reference_call(f, dict(args))
    k, root = oracles.build([text])
    if k != 'ok':
        return dict(text=text, reason='unexpected build failure', got=k)
    try:
        cfg = Config(root)
        got = ('ok', cfg['r'])
    except Exception as e:
        got = (evalcorr.err_kind(e), str(e)[:200])
    if ref[0] == 'call-error' and case['kind'] == 'bind':
        # functools.partial does not call the target: only the resolution of the mapping can fail
        ref = (('ok', None), ref[1], ref[2])
    if ref == ('error',) or ref[0] == 'call-error':
        if got[0] != 'EEval':
            return dict(text=text, reason='the arguments cannot be bound as described (index beyond the signature / duplicate / missing / unexpected): an evaluation error is required', got=repr(got)[:300])
        return None
    (_, expected), pos, kws = ref
    if got[0] != 'ok':
        return dict(text=text, reason='a valid call failed', expected=repr(expected), got=repr(got)[:300])
    if case['kind'] == 'call':
        if got[1] != expected:
            return dict(text=text, reason='the target did not receive the arguments Python would bind', expected=repr(expected), got=repr(got[1]))
    else:
        p = got[1]
        if not isinstance(p, functools.partial) or p.func is not f or list(p.args) != pos or p.keywords != kws:
            return dict(text=text, reason='!bind must give functools.partial(target, *positional, **keywords)', expected=repr((pos, kws)), got=repr(p))
    return None


# ---------------------------------------------------------------- merge table scenarios (recording targets)

def gen_table_case(rng):
    t1, t2 = 'vmod.u1', 'vmod.u2'
    a1 = {k: rng.randint(1, 9) for k in rng.sample(['x', 'y', 'z'], rng.randint(0, 3))}
    a2 = {k: rng.randint(11, 19) for k in rng.sample(['x', 'y', 'w'], rng.randint(0, 3))}
    kind = rng.choice(['call', 'bind'])
    row = rng.choice(['mapping', 'list', 'string', 'new_target', 'new_target_merge', 'same_target', 'new_target_weaker', 'new_target_onto_force'])
    fmt = lambda d: '{' + ', '.join(f'{k}: {v}' for k, v in d.items()) + '}'
    older = f'{{f: !{kind}:{t1} {fmt(a1)}, k: 0}}'
    if row == 'mapping':
        newer, exp = f'{{f: {fmt(a2)}}}', (t1, {**a1, **a2})
    elif row == 'list':
        vals = [rng.randint(21, 29) for _ in range(rng.randint(1, 3))]
        newer, exp = '{f: [' + ', '.join(map(str, vals)) + ']}', (t1, dict(enumerate(vals)))
    elif row == 'string':
        newer, exp = f'{{f: {t2}}}', (t2, {})
    elif row == 'new_target':
        newer, exp = f'{{f: !{kind}:{t2} {fmt(a2)}}}', (t2, a2)
    elif row == 'new_target_weaker':
        # a function node of LOWER priority with another target loses the meeting as a whole: target and arguments of the existing node stay
        newer, exp = f"{{f: !{kind}:{t2}{{{{'priority': -1}}}} {fmt(a2)}}}", (t1, a1)
    elif row == 'new_target_onto_force':
        older = f"{{f: !{kind}:{t1}{{{{'priority': 1}}}} {fmt(a1)}, k: 0}}"
        newer, exp = f'{{f: !{kind}:{t2} {fmt(a2)}}}', (t1, a1)
    elif row == 'new_target_merge':
        newer, exp = f"{{f: !{kind}:{t2}{{{{'delete': False}}}} {fmt(a2)}}}", (t2, {**a1, **a2})
    else:
        newer, exp = f'{{f: !{kind}:{t1} {fmt(a2)}}}', (t1, a2)
    return dict(texts=[older, newer], kind=kind, row=row, expect_target=exp[0], expect_args={str(k): v for k, v in exp[1].items()})


def judge_table(case):
    from awesomeyaml.config import Config
    C07.install()
    k, root = oracles.build(case['texts'])
    if k != 'ok':
        return dict(texts=case['texts'], reason='unexpected merge failure', got=k, message=root)
    try:
        cfg = Config(root)
    except Exception as e:
        return dict(texts=case['texts'], reason='unexpected evaluation failure', message=str(e)[:200])
    r = cfg['f']
    if case['kind'] == 'call':
        got_t, pos, kw = r.f, list(r.args), dict(r.kwargs)
    else:
        got_t, pos, kw = 'vmod.' + r.func.__name__, list(r.args), dict(r.keywords)
    got_args = {str(i): v for i, v in enumerate(pos)}
    got_args.update({str(k2): v for k2, v in kw.items()})
    if got_t != case['expect_target'] or got_args != case['expect_args']:
        return dict(texts=case['texts'], row=case['row'], reason='the function-node merge table is not followed', expected=(case['expect_target'], case['expect_args']), got=(got_t, got_args))
    return None


def gen_table_included(rng):
    """the incoming function node is itself the product of a merge: two files flattened by a key-level include, then merged as a whole"""
    t1, t2 = 'vmod.u1', 'vmod.u2'
    fmt = lambda d: '{' + ', '.join(f'{k}: {v}' for k, v in d.items()) + '}'
    a1 = {k: rng.randint(1, 9) for k in rng.sample(['x', 'y', 'z'], rng.randint(1, 3))}
    a2a = {k: rng.randint(11, 19) for k in rng.sample(['x', 'w'], rng.randint(0, 2))}
    a2b = {k: rng.randint(21, 29) for k in rng.sample(['y', 'w', 'v'], rng.randint(1, 2))}
    kind = rng.choice(['call', 'bind'])
    T = rng.choice([t1, t2])
    return dict(included=True, kind=kind, older=f'{{p: {{f: !{kind}:{t1} {fmt(a1)}, k: 0}}}}', f1=f'{{f: !{kind}:{T} {fmt(a2a)}}}', f2=f'{{f: {fmt(a2b)}}}',
                row='same_target' if T == t1 else 'new_target', expect_target=T, expect_args={str(k): v for k, v in {**a2a, **a2b}.items()})


def judge_table_included(case):
    from awesomeyaml.config import Config
    from awesomeyaml.builder import Builder
    from .C06 import Sandbox
    C07.install()
    with Sandbox() as sb:
        sb.write('d/f1.yaml', case['f1'] + '\n')
        sb.write('d/f2.yaml', case['f2'] + '\n')
        main = sb.write('d/main.yaml', 'p: !include [f1.yaml, f2.yaml]\n')
        try:
            b = Builder()
            b.add_source(case['older'], raw_yaml=True, filename=os.path.join(sb.dir, 'd', 'older.yaml'))
            b.add_source(main)
            cfg = Config(b.build())
        except Exception as e:
            return dict(case=case, reason='unexpected failure', message=type(e).__name__ + ': ' + str(e)[:200])
    r = cfg['p']['f']
    if case['kind'] == 'call':
        got_t, pos, kw = r.f, list(r.args), dict(r.kwargs)
    else:
        got_t, pos, kw = 'vmod.' + r.func.__name__, list(r.args), dict(r.keywords)
    got_args = {str(i): v for i, v in enumerate(pos)}
    got_args.update({str(k2): v for k2, v in kw.items()})
    if got_t != case['expect_target'] or got_args != case['expect_args']:
        return dict(case=case, reason='the function-node merge table is not followed when the incoming function node is the merged content of included files',
                    expected=(case['expect_target'], case['expect_args']), got=(got_t, got_args))
    return None


def run(rep, tier, rng):
    rep.rule = ('(a) merge histories with !call/!bind nodes, string and list overlays (correspondence with Model.Merge); (b) evaluation of nodes with named targets (correspondence with '
                'Model.Eval incl. resolve_args); (c) every target signature shape (positional, defaulted, keyword-only, *args, **kwargs, none) x argument mappings with integer keys incl. '
                'gaps and beyond-signature indices, string keys, lists, scalars - compared with a native Python call; (d) the six rows of the merge table with recording targets. '
                'non-trivial = argument mapping with >= 2 entries or a gap; distinct = hash')
    install_targets()
    C07.install()
    base.proofs(rep, 'Properties.C13', THEOREMS, deps=['Proofs.FactsOk'])
    n = 300 if tier == 'quick' else 5000
    base.merge_t3(rep, rng, ['func'], n, 'func', 2, 4, extra_cases=[("{r: !bind vmod.f}", "{r: !del ''}"), ("{f: !call:vmod.f {x: 1}}", "{f: !call:vmod.g {}}")])
    base.eval_t3(rep, rng, n, dict(named=True, cycles=False), 'named')
    # pybind specification vs real binding (T3 for Model.Func.call_binding)
    m = install_targets()
    items, calls = [], []
    for _ in range(600 if tier == 'quick' else 8000):
        t = rng.choice(TARGETS)
        mode, a = gen_args(rng, getattr(m, t))
        kind = rng.choice(['call', 'call', 'bind'])
        calls.append(dict(target=t, mode=mode, args=a if mode != 'map' else {str(k): v for k, v in a.items()}, kind=kind))
        rep.case(repr(calls[-1]), mode == 'map' and len(a) >= 2, sample=calls[-1] if len(calls) < 4 else None)
        rep.count('target ' + t)
        rep.count('args ' + mode)
        # correspondence of the binding specification: does Python accept the resolved call?
        f = getattr(m, t)
        args = dict(enumerate(a)) if mode == 'list' else ({0: a} if mode == 'scalar' else dict(a))
        ref = reference_call(f, dict(args))
        intern = ser.Interner()
        at = ser.coq_list(f'({ser.key_term(k, intern)}, VS (SInt {v}))' for k, v in args.items())
        items.append(f'({sig_term(f, intern)}, {at}, {"true" if (ref != ("error",) and ref[0] != "call-error") else "false"})')
    hdr = 'From AY Require Import Model.Func Model.Eq.\nOpen Scope Z_scope.\n'
    chk = 'fun c : signature * list (key * value) * bool => Bool.eqb (match call_binding (fst (fst c)) (snd (fst c)) with Some _ => true | None => false end) (snd c)'
    bad, errors, wall, cmd = common.run_case_files('c13b', hdr, items, chk, shard=700)
    rep.checker_cmds.append(cmd)
    rep.oblige(f'T3 correspondence Model.Func.call_binding (resolve_args + specification of Python binding) accepts exactly the calls Python accepts, on {len(items)} (signature, arguments) pairs',
               not bad and not errors, (repr(dict(disagreements=len(bad), first=[calls[i] for i in bad[:3]])) if bad else '') + (errors[0]['log'][-500:] if errors else ''))
    base.run_oracle(rep, 'C13', 'node call vs native Python call', calls, judge_call)
    tab = [gen_table_case(rng) for _ in range(200 if tier == 'quick' else 2000)]
    for c in tab:
        rep.count('table row ' + c['row'])
    base.run_oracle(rep, 'C13', 'function-node merge table', tab, judge_table)
    base.run_oracle(rep, 'C13', 'merge table with an incoming function node that is the merged content of a key-level include',
                    [gen_table_included(rng) for _ in range(40 if tier == 'quick' else 400)], judge_table_included)


def replay(data):
    r = data['replay']
    if 'input' in r:
        x = r['input']
        f = judge_table_included(x) if x.get('included') else (judge_table(x) if 'row' in x else judge_call(x))
        print('replay:', 'property FAILS' if f else 'property holds', f or '')
        return 1 if f else 0
    print('no input to replay; broken obligations:', r)
    return 1
