"""C14 — a build succeeds iff no !required placeholder survives merging."""
import re
from .. import common, gen, evalcorr, oracles
from . import base
from .C09 import tree_paths

THEOREMS = ['C14_scan_complete', 'C14_paths_resolve', 'C14_iff', 'C14_overwritten_placeholder_does_not_count']


def judge(texts):
    from awesomeyaml.config import Config
    from awesomeyaml.nodes.required import RequiredNode
    from awesomeyaml.nodes.node_path import NodePath
    evalcorr.install_vmod()
    k, root = oracles.build(texts)
    if k != 'ok':
        return None
    nodes = tree_paths(root)
    req = sorted(NodePath.join_path(list(p)) for p, n in nodes.items() if isinstance(n, RequiredNode))
    del evalcorr.CALL_LOG[:]
    try:
        base.with_watchdog(lambda: Config(root))
        kind, msg = 'ok', ''
    except base.Hang:
        return dict(texts=texts, reason='evaluation does not terminate')
    except RecursionError:
        kind, msg = 'EEval', ''
    except Exception as e:
        kind, msg = evalcorr.err_kind(e), str(e)
    if req:
        if kind != 'EMissing':
            return dict(texts=texts, reason='a surviving !required placeholder must fail the construction of the config with the list of missing paths',
                        surviving=req, got=kind, message=msg[:300])
        listed = sorted(eval(m) for m in re.findall(r"^\s+('.*'|\".*\")\s*$", msg, flags=re.M))
        if listed != req:
            return dict(texts=texts, reason='the error must list the path of every surviving placeholder', surviving=req, listed=listed)
        if evalcorr.CALL_LOG:
            return dict(texts=texts, reason='something was evaluated before the missing placeholders were reported', executed=list(evalcorr.CALL_LOG))
    else:
        if kind == 'EMissing':
            return dict(texts=texts, reason='no placeholder survives, yet the build failed as if one did', message=msg[:300])
    return None


def gen_steps(rng):
    """ONE builder used incrementally: after every added stage the config is constructed again.  Expectations are computed from the
    scenario (which placeholders were written / filled / deleted so far), never from the built tree."""
    fills = {'a': 'a: 5', 'b.c': 'b: {c: 2}', 'b.d[1]': 'b: {d: {1: 3}}', 'f.p': 'f: {p: 1}'}
    base_doc = '{a: !required , b: {c: !required , d: [1, !required ]}, f: !call:vmod.f {p: !required }, k: 1}'
    missing = set(fills)
    steps = [(base_doc, sorted(missing))]
    order = list(fills)
    rng.shuffle(order)
    if rng.random() < 0.4:
        cut = rng.randint(0, len(order))
        for p in order[:cut]:
            missing.discard(p)
            steps.append(('{' + fills[p] + '}', sorted(missing)))
        steps.append(('!del {}', []))                       # forget everything so far, placeholders included
        missing = set()
    else:
        for p in order:
            missing.discard(p)
            steps.append(('{' + fills[p] + '}', sorted(missing)))
    # the config has been constructed successfully by now; a later stage brings new placeholders
    steps.append(('{z: {w: !required , l: [!required ]}}', ['z.l[0]', 'z.w']))
    steps.append(('{z: {w: 1}}', ['z.l[0]']))
    steps.append(('{z: {l: !del }}' if rng.random() < 0.5 else '{z: {l: [7]}}', []))
    return steps


def judge_steps(steps):
    from awesomeyaml.config import Config
    from awesomeyaml.builder import Builder
    evalcorr.install_vmod()
    b = Builder()
    for i, (text, expect) in enumerate(steps):
        b.add_source(text, raw_yaml=True, filename=f'<s{i}>')
        del evalcorr.CALL_LOG[:]
        try:
            root = b.build()
            if i % 2:
                from awesomeyaml.eval_context import EvalContext
                base.with_watchdog(lambda: Config(root, eval_ctx=EvalContext()))        # a caller-supplied evaluation context
            else:
                base.with_watchdog(lambda: Config(root))
            kind, msg = 'ok', ''
        except base.Hang:
            return dict(steps=steps, at=i, reason='does not terminate')
        except Exception as e:
            kind, msg = evalcorr.err_kind(e), str(e)
        if expect:
            if kind != 'EMissing':
                return dict(steps=[t for t, _ in steps[:i + 1]], at=i, reason='surviving placeholders must fail the construction (before anything is evaluated) with the list of their paths', expected=expect, got=kind, message=msg[:300])
            listed = sorted(eval(m) for m in re.findall(r"^\s+('.*'|\".*\")\s*$", msg, flags=re.M))
            if listed != expect:
                return dict(steps=[t for t, _ in steps[:i + 1]], at=i, reason='the error must list exactly the surviving placeholders', expected=expect, listed=listed)
            if evalcorr.CALL_LOG:
                return dict(steps=[t for t, _ in steps[:i + 1]], at=i, reason='something was evaluated before the missing placeholders were reported', executed=list(evalcorr.CALL_LOG))
        elif kind != 'ok':
            return dict(steps=[t for t, _ in steps[:i + 1]], at=i, reason='no placeholder survives (all were overwritten or deleted by later stages), yet construction failed', got=kind, message=msg[:300])
    return None


def cmdline_cases():
    """the usual last stage that fills placeholders: inline command-line options, with paths through lists of lists"""
    base_doc = '{grid: [[1, !required ], [3, 4]], fns: [[5, {a: !required , b: 1}]], k: 0}'
    return [dict(cmd=True, base=base_doc, args=['grid[0][1]=2', 'fns[0][1].a=7'], expect=[]),
            dict(cmd=True, base=base_doc, args=['grid[0][1]=2'], expect=['fns[0][1].a']),
            dict(cmd=True, base=base_doc, args=['grid[1][0]=7', 'fns[0][1].a=7'], expect=['grid[0][1]']),
            dict(cmd=True, base=base_doc, args=['fns[0][1].b=9'], expect=['fns[0][1].a', 'grid[0][1]']),
            dict(cmd=True, base=base_doc, args=['grid[1][1]=0', 'grid[0][1]=6', 'fns[0][1].a=w'], expect=[])]


def judge_cmdline(case):
    from awesomeyaml.config import Config
    from awesomeyaml.builder import Builder
    try:
        yamls, fnames, raws = Config.process_cmdline([case['base']] + case['args'])
        b = Builder()
        b.add_multiple_sources(*yamls, raw_yaml=raws, filename=fnames)
        Config(b.build())
        kind, msg = 'ok', ''
    except Exception as e:
        kind, msg = evalcorr.err_kind(e), str(e)
    if case['expect']:
        if kind != 'EMissing':
            return dict(case=case, reason='a placeholder that no option filled must fail the construction with the list of missing paths', got=kind, message=msg[:300])
        listed = sorted(eval(m) for m in re.findall(r"^\s+('.*'|\".*\")\s*$", msg, flags=re.M))
        if listed != sorted(case['expect']):
            return dict(case=case, reason='the error must list exactly the surviving placeholders', listed=listed)
    elif kind != 'ok':
        return dict(case=case, reason='every placeholder was filled by a command-line option, yet construction failed', got=kind, message=msg[:300])
    return None


def run(rep, tier, rng):
    rep.rule = ('1-2 stage configs with !required at top level, in nested mappings, lists and call/bind arguments; later stages override or delete random subsets. '
                'non-trivial = at least one placeholder in some stage; distinct = hash')
    base.proofs(rep, 'Properties.C14', THEOREMS, deps=['Proofs.FactsOk'])
    n = 500 if tier == 'quick' else 8000
    extra = [["{setup: !call:vmod.f [1], db: !call:vmod.g {host: !required , opts: {retries: !required }}, factory: !bind:vmod.f {port: !required }}"],
             ["{a: [1, {b: !required }]}", "{a: {1: {b: 5}}}"],
             # one placeholder object at several paths (YAML anchor / alias)
             ["{primary: {password: &p !required }, replica: {password: *p}, backup: {auth: {password: *p}, targets: [1, *p]}}"],
             ["{primary: {password: &p !required }, replica: {password: *p}}", "{primary: {password: x}}"],
             ["{optim: &o {lr: !required , wd: 1}, finetune: *o}"]]
    cases, hangs = base.eval_t3(rep, rng, n, dict(required=0.12, cycles=False), 'req', extra=extra)
    inputs = [c['texts'] for c in cases] + [h['texts'] for h in hangs]
    for t in inputs:
        rep.case('\n'.join(t), any('!required' in x for x in t), sample=t)
    base.run_oracle(rep, 'C14', 'fails iff a placeholder survives; all paths listed; nothing evaluated first', inputs, judge)
    base.run_oracle(rep, 'C14', 'placeholders filled by inline command-line options (paths through lists of lists)', cmdline_cases(), judge_cmdline)
    base.run_oracle(rep, 'C14', 'one builder used incrementally: placeholders filled / deleted (incl. a top-level !del {}) / introduced after a successful construction',
                    [gen_steps(rng) for _ in range(40 if tier == 'quick' else 600)], judge_steps, show=lambda st: dict(steps=[list(x) for x in st]))


def replay(data):
    r = data['replay']
    if 'input' in r:
        if isinstance(r['input'], dict) and (r['input'].get('cmd') or (isinstance(r['input'].get('case'), dict) and r['input']['case'].get('cmd'))):
            f = judge_cmdline(r['input'].get('case', r['input']))
        else:
            f = judge_steps([tuple(x) for x in r['input']['steps']]) if isinstance(r['input'], dict) else judge(r['input'])
        print('replay:', 'property FAILS' if f else 'property holds', f or '')
        return 1 if f else 0
    print('no input to replay; broken obligations:', r)
    return 1
