"""Subprocess side of C12: evaluates !eval / f-string programs through awesomeyaml and natively, one JSON result line per case.
usage: python -m vlib.evalrun <cases.json>   (each case: list of builds; every build = cfg, symbols, code, kind, filename)
A crash of the interpreter kills this process: the parent sees which case had no result line."""
import sys, os, json, builtins


def plain(v):
    if isinstance(v, dict):
        return {str(k): plain(a) for k, a in v.items()}
    if isinstance(v, (list, tuple)):
        return [plain(a) for a in v]
    if isinstance(v, (set, frozenset)):
        return ['set'] + sorted(plain(a) for a in v)
    if isinstance(v, (int, float, str, bool)) or v is None:
        return v
    if callable(v):
        return '<callable>'
    return repr(type(v).__name__)


def make_symbols(spec):
    out = {}
    for k, v in spec.items():
        if isinstance(v, dict) and 'fn' in v:
            out[k] = (lambda c: (lambda *a: (c, *a)))(v['fn'])
        else:
            out[k] = v
    return out


def text_of(build):
    lines = [f'{json.dumps(k)}: {json.dumps(v)}' for k, v in build['cfg'].items()]
    if build['kind'] == 'eval':
        lines.append('out: !eval |')
        lines += ['  ' + l for l in build['code'].split('\n')]
    elif build['kind'] == 'eval-plain':
        lines.append('out: !eval ' + build['code'])  # a plain (unquoted) one-line scalar: the code text must reach Python as written
    elif build['kind'] == 'eval-two':
        # the same code under two different paths of one config (cfg entries first, then the two nodes)
        for key, ind in (('out', '  '), ('nested', None)):
            if ind:
                lines.append('out: !eval |')
                lines += ['  ' + l for l in build['code'].split('\n')]
            else:
                lines.append('nested:')
                lines.append('  second: !eval |')
                lines += ['    ' + l for l in build['code'].split('\n')]
    elif build['kind'] == 'fstr-implicit':
        lines.append('out: ' + build['code'])       # a plain scalar f"...": picked up by the implicit resolver
    else:
        lines.append('out: !fstr ' + json.dumps(build['code']))
    return '\n'.join(lines) + '\n'


def via_library(build):
    from awesomeyaml.config import Config
    from awesomeyaml.builder import Builder
    from awesomeyaml.eval_context import EvalContext
    from awesomeyaml import errors
    b = Builder()
    b.add_source(text_of(build), raw_yaml=True, filename=build.get('filename'))
    try:
        cfg = Config(b.build(), eval_ctx=EvalContext(eval_symbols=make_symbols(build.get('symbols', {}))))
        if build['kind'] == 'eval-two':
            return ['ok', [plain(cfg['out']), plain(cfg['nested']['second'])]]
        return ['ok', plain(cfg['out'])]
    except errors.EvalError as e:
        c = e.__cause__
        while isinstance(c, errors.EvalError) and c.__cause__ is not None:
            c = c.__cause__
        return ['EvalError', type(c).__name__ if c is not None else None]
    except Exception as e:
        return ['other', type(e).__name__, str(e)[:120]]


def native(build):
    """the specification: exec all but the last line, eval the last, names: own definitions, symbols, top-level config entries, builtins"""
    ns = {}
    ns.update(build['cfg'])
    ns.update(make_symbols(build.get('symbols', {})))
    try:
        if build['kind'] in ('eval', 'eval-plain', 'eval-two'):
            def once():
                ns1 = dict(ns)
                lines = build['code'].strip().split('\n')
                exec(compile('\n'.join(lines[:-1]), '<native>', 'exec'), ns1)
                return plain(eval(compile(lines[-1].strip(), '<native>', 'eval'), ns1))
            if build['kind'] == 'eval-two':
                return ['ok', [once(), once()]]          # every node computes in a namespace of its own
            return ['ok', once()]
        src = build['code']
        if not (len(src) >= 3 and src[0] == 'f' and src[1] in '\'"' and src[-1] == src[1]):
            src = "f'" + src.replace("'", "\\'") + "'"
        return ['ok', plain(eval(compile(src, '<native>', 'eval'), ns))]
    except BaseException as e:
        return ['EvalError', type(e).__name__]


def main():
    sys.path.insert(0, os.environ.get('AY_REPO', '/repo'))
    cases = json.load(open(sys.argv[1]))
    start = int(sys.argv[2]) if len(sys.argv) > 2 else 0
    for i in range(start, len(cases)):
        print('BEGIN', i, flush=True)
        res = []
        for build in cases[i]:
            res.append(dict(lib=via_library(build), native=native(build)))
        print('RESULT', i, json.dumps(res), flush=True)
        # cases are independent experiments: forget the module namespaces this case registered (a case = one process history)
        for k in [k for k in sys.modules if k.startswith('awesomeyaml.eval_node_namespace')]:
            del sys.modules[k]


if __name__ == '__main__':
    main()
