"""T2: exhaustive finite-domain correspondence of the flag / priority / index logic.

Every function below enumerates its WHOLE domain, calls the real implementation on real node objects and returns
(coq check name, list of case tuples). Coq decides forallb check cases = true by vm_compute (Model/T2.v)."""
import itertools
from . import common, ser

OB = [None, False, True]            # encoded 0, 1, 2
PR = [None, -1, 0, 1]               # encoded 0, 1, 2, 3


def eob(x):
    return 0 if x is None else (2 if x else 1)


def epr(x):
    return 0 if x is None else int(x) + 2


def eb(x):
    return 1 if x else 0


def mk(kind, children=None, **raw):
    """a real node of the given kind with raw attributes forced"""
    from awesomeyaml.nodes.node import ConfigNode
    from awesomeyaml.nodes.dict import ConfigDict
    from awesomeyaml.nodes.list import ConfigList
    from awesomeyaml.nodes.call import CallNode
    from awesomeyaml.nodes.bind import BindNode
    from awesomeyaml.nodes.stream import StreamNode
    from awesomeyaml.nodes.append import AppendNode
    from awesomeyaml.nodes.extend import ExtendNode
    if kind == 0:
        n = ConfigNode(1)
    elif kind == 1:
        n = ConfigDict({})
    elif kind == 2:
        n = ConfigList([])
    elif kind == 3:
        n = CallNode('f', {})
    elif kind == 4:
        n = BindNode('f', {})
    elif kind == 5:
        class _B:
            stages = []
        n = StreamNode(_B())
    elif kind == 6:
        n = AppendNode([])
    else:
        n = ExtendNode([])
    base = dict(_priority=None, _delete=None, _allow_new=None, _safe=None, _implicit_delete=None, _implicit_allow_new=None,
                _implicit_safe=None, _default_safe=True, _metadata={})
    base.update(raw)
    for k, v in base.items():
        setattr(n, k, v)
    return n


def tup(*xs):
    def t(x):
        if isinstance(x, (tuple, list)) and not isinstance(x, str):
            if isinstance(x, list):
                return ser.coq_list(t(y) for y in x)
            return '(' + ', '.join(t(y) for y in x) + ')'
        return ser.z(x)
    return t(tuple(xs))


def cases_hpo():
    out = []
    for pa, pb, ie in itertools.product(PR, PR, [False, True]):
        a = mk(0, _priority=pa)
        b = mk(0, _priority=pb)
        out.append(tup(epr(pa), epr(pb), eb(ie), eb(a.ayns.has_priority_over(b, if_equal=ie))))
    return 'chk_hpo', out


def cases_eff():
    out = []
    for k in range(8):
        for p, d, n, s, idl, inw, isf, ds in itertools.product(PR, OB, OB, OB, OB, OB, OB, OB):
            if k not in (0, 1, 2) and (n is not None or inw is False and s is True):
                # keep the sweep complete for leaf/dict/list; for the other kinds vary what their class changes (delete default)
                continue
            x = mk(k, _priority=p, _delete=d, _allow_new=n, _safe=s, _implicit_delete=idl, _implicit_allow_new=inw, _implicit_safe=isf, _default_safe=ds)
            out.append(tup(k, (epr(p), eob(d), eob(n), eob(s), eob(idl), eob(inw), eob(isf), eob(ds)),
                           (int(x.ayns.priority), eb(x.ayns.delete), eb(x.ayns.allow_new), eb(x.ayns.safe))))
    return 'chk_eff', out


def cases_ck():
    out = []
    for k in range(1, 8):
        for d, n, s, idl, inw, isf in itertools.product(OB, repeat=6):
            x = mk(k, _delete=d, _allow_new=n, _safe=s, _implicit_delete=idl, _implicit_allow_new=inw, _implicit_safe=isf)
            kw = x._get_child_kwargs()
            if not kw:
                out.append(tup(k, (eob(d), eob(n), eob(s), eob(idl), eob(inw), eob(isf)), (0, 0, 0, 0)))
            else:
                out.append(tup(k, (eob(d), eob(n), eob(s), eob(idl), eob(inw), eob(isf)),
                               (1, eob(kw.get('implicit_delete')), eob(kw.get('implicit_allow_new')), eob(kw.get('implicit_safe')))))
    return 'chk_ck', out


def cases_repl():
    out = []
    dom = list(itertools.product(PR, OB, OB, OB))
    for w in (0, 1):
        for (p1, d1, s1, ds1) in dom:
            for (p2, d2, s2, ds2) in dom:
                # full product of the safety part with two representative (priority, delete) pairs and vice versa keeps it at ~7k cases per function
                if not ((p1, d1) in ((None, None), (1, True)) and (p2, d2) in ((None, None), (-1, False)) or (s1, ds1, s2, ds2) in ((None, True, None, True), (True, False, False, None))):
                    continue
                a = mk(0, _priority=p1, _delete=d1, _safe=s1, _default_safe=ds1, _metadata={1: 1, 2: 2})
                b = mk(0, _priority=p2, _delete=d2, _safe=s2, _default_safe=ds2, _metadata={2: 3, 3: 4})
                r = a._replace_self(b) if w == 0 else a._replace_other(b)
                out.append(tup(w, (epr(p1), eob(d1), eob(s1), eob(ds1)), (epr(p2), eob(d2), eob(s2), eob(ds2)),
                               (epr(r._priority), eob(r._delete), eob(r._safe), eob(r._default_safe)), [(int(k), int(v)) for k, v in r._metadata.items()]))
    return 'chk_repl', out


def cases_adopt():
    out = []
    for k in (1, 2, 3, 5):
        for d, n, s, idl, inw, isf in itertools.product(OB, repeat=6):
            for ci, cn, cs in itertools.product(OB, repeat=3):
                if k != 1 and (cn is not None and ci is not None and cs is None):
                    continue
                parent = mk(k, _delete=d, _allow_new=n, _safe=s, _implicit_delete=idl, _implicit_allow_new=inw, _implicit_safe=isf)
                child = mk(0, _implicit_delete=ci, _implicit_allow_new=cn, _implicit_safe=cs)
                from awesomeyaml.nodes.composed import ComposedNode
                r = ComposedNode.ayns.set_child(parent, 0 if k in (2, 5) else 'a', child)
                out.append(tup(k, (eob(d), eob(n), eob(s), eob(idl), eob(inw), eob(isf)), (eob(ci), eob(cn), eob(cs)),
                               (eob(r._implicit_delete), eob(r._implicit_allow_new), eob(r._implicit_safe))))
    return 'chk_adopt', out


def cases_prop(full):
    out = []
    import random
    rng = random.Random(7)
    for k in (1, 2, 3):
        for d, n, s, idl, inw, isf in itertools.product(OB, repeat=6):
            for ci, cn, cs in itertools.product(OB, repeat=3):
                gs_dom = list(itertools.product(OB, repeat=3))
                if not full:
                    gs_dom = rng.sample(gs_dom, 1)
                    if k == 3 or (n is not None and s is not None and rng.random() < 0.7):
                        continue
                for gi, gn, gs in gs_dom:
                    from awesomeyaml.nodes.dict import ConfigDict
                    g = mk(0, _implicit_delete=gi, _implicit_allow_new=gn, _implicit_safe=gs)
                    ch = mk(1, _implicit_delete=ci, _implicit_allow_new=cn, _implicit_safe=cs)
                    ch._children['a'] = g
                    dict.__setitem__(ch, 'a', g)
                    parent = mk(k, _delete=d, _allow_new=n, _safe=s, _implicit_delete=idl, _implicit_allow_new=inw, _implicit_safe=isf)
                    key = 0 if k == 2 else 'a'
                    parent._children[key] = ch
                    if k == 2:
                        list.append(parent, ch)
                    else:
                        dict.__setitem__(parent, key, ch)
                    parent._propagate_implicit_values()
                    out.append(tup(k, (eob(d), eob(n), eob(s), eob(idl), eob(inw), eob(isf)), (eob(ci), eob(cn), eob(cs)), (eob(gi), eob(gn), eob(gs)),
                                   (eob(ch._implicit_delete), eob(ch._implicit_allow_new), eob(ch._implicit_safe)),
                                   (eob(g._implicit_delete), eob(g._implicit_allow_new), eob(g._implicit_safe))))
    return 'chk_prop', out


def cases_vi():
    from awesomeyaml.nodes.list import ConfigList
    out = []
    for L in range(0, 7):
        l = ConfigList(list(range(L)))
        for i in range(-L - 3, L + 4):
            for strict in (False, True):
                try:
                    r = l._validate_index(i, strict=strict)
                    out.append(tup(L, i, eb(strict), 0, int(r)))
                except TypeError:
                    out.append(tup(L, i, eb(strict), 1, 0))
                except IndexError:
                    out.append(tup(L, i, eb(strict), 2, 0))
    return 'chk_vi', out


ALL = {
    'hpo': cases_hpo, 'eff': cases_eff, 'ck': cases_ck, 'repl': cases_repl, 'adopt': cases_adopt, 'vi': cases_vi,
}


def run(rep, which, tier='quick'):
    """run the named exhaustive sweeps and add one obligation each"""
    hdr = 'From AY Require Import Model.T2.\nOpen Scope Z_scope.\n'
    for w in which:
        if w == 'prop':
            name, items = cases_prop(full=(tier == 'thorough'))
            exhaustive = tier == 'thorough'
        else:
            name, items = ALL[w]()
            exhaustive = True
        bad, errors, wall, cmd = common.run_case_files('t2' + w, hdr, items, name, shard=2500)
        rep.checker_cmds.append(cmd)
        rep.oblige(f'T2 {"exhaustive" if exhaustive else "sampled"} correspondence {name} on {len(items)} cases (whole finite domain of the real function on real node objects)',
                   not bad and not errors, (f'{len(bad)} disagreements, e.g. case {items[bad[0]]}' if bad else '') + (errors[0]['log'][-600:] if errors else ''))
        rep.count(f't2 {w} cases', len(items))
        rep.extra.setdefault('exhaustive_sweeps', []).append(dict(function=name, cases=len(items), exhaustive=exhaustive, disagreements=len(bad)))
