"""T3 for the bytecode rewriter: EvalNode._patch_access_to_globals on natively compiled code objects vs Model.Patch.patch,
byte for byte (code units and name table) or error class for error class.  Nothing is executed."""
import types
from . import ser

HEADER = 'From AY Require Import Model.Eq Model.Patch.\nOpen Scope Z_scope.\n'
CHECK = ('fun c : list Z * bool * list unit * pres (option (list unit * list Z)) => '
         'patch_res_eqb (patch 1 2 (fst (fst (fst c))) (snd (fst (fst c))) (snd (fst c))) (snd c)')
WRAPPER = '__ayns_globals_wrapper'


def units(code_bytes):
    return [(code_bytes[i], code_bytes[i + 1]) for i in range(0, len(code_bytes), 2)]


def name_ids(names, table):
    out = []
    for n in names:
        if n == WRAPPER:
            out.append(1)
        elif n == 'ayns':
            out.append(2)
        else:
            out.append(table.setdefault(n, 3 + len(table)))
    return out


def uterm(us):
    return ser.coq_list(f'({a}, {b})' for a, b in us)


def cases_of(code, patch_fn, out, stats):
    """one correspondence case per code object whose nested code objects all patch without raising"""
    nested = False
    ok = True
    for c in code.co_consts:
        if isinstance(c, types.CodeType):
            sub_ok = cases_of(c, patch_fn, out, stats)
            ok = ok and sub_ok
            if sub_ok:
                try:
                    nested = patch_fn(c)[1] or nested
                except Exception:
                    ok = False
    if not ok:
        stats['skipped: a nested code object raises'] = stats.get('skipped: a nested code object raises', 0) + 1
        return False
    table = {}
    names = name_ids(code.co_names, table)
    raised = False
    try:
        new, done = patch_fn(code)
        if done:
            exp = f'(POk (Some ({uterm(units(new.co_code))}, {ser.coq_list(map(str, name_ids(new.co_names, table)))})))'
            stats['patched'] = stats.get('patched', 0) + 1
        else:
            exp = '(POk None)'
            stats['unchanged'] = stats.get('unchanged', 0) + 1
    except OverflowError:
        exp, raised = '(PErr POverflow)', True
    except KeyError:
        exp, raised = '(PErr PKey)', True
    except AssertionError:
        exp, raised = '(PErr PAssert)', True
    except IndexError:
        exp, raised = '(PErr PIndex)', True
    if raised:
        stats['raises'] = stats.get('raises', 0) + 1
    out.append(f'({ser.coq_list(map(str, names))}, {"true" if nested else "false"}, {uterm(units(code.co_code))}, {exp})')
    return not raised
