"""Seeded generators of YAML documents (as small trees rendered to flow-style text).

A document tree is ('map', tag, [(key, child)...]) | ('seq', tag, [child...]) | ('sc', tag, value-text).
Every random choice comes from the Random object passed in. Key alphabet is deliberately tiny so that key
names coincide with ancestor names (C04/C05)."""
import random

KEYS = ['a', 'b', 'c', 'r']
# keys that are attribute names of the node / builder classes, or contain path metacharacters (a single key is never a path)
WEIRD_KEYS = ['stages', 'a.b', 'lr-steps', 'value', 'x[0]', 'delete', 'b.c']
SCALARS = ['1', '2', '3', '0', 'x', 'y', "''", 'true', 'false', 'null', '1.5', '7']
PRIO_TAGS = ['!force', '!weak']
DEL_TAGS = ['!del', '!merge']
NEW_TAGS = ['!new', '!notnew']


class Profile:
    def __init__(self, **kw):
        self.max_depth = 3
        self.max_width = 3
        self.p_seq = 0.25
        self.p_map = 0.45
        self.p_tag = 0.0          # probability that a node carries a tag from `tags`
        self.tags = []
        self.p_remove = 0.0       # value-less !del
        self.p_intkey = 0.1
        self.p_empty = 0.1
        self.ops = []             # premerge operators allowed: 'append','extend','prev','clear'
        self.p_op = 0.0
        self.dyn = []             # 'call','bind','required','xref'
        self.p_dyn = 0.0
        self.underscore = False
        self.weird = 0.0          # probability that a key comes from WEIRD_KEYS
        self.meta = 0.0           # probability that a scalar carries !metadata{{...}} (user metadata, optionally a priority)
        self.__dict__.update(kw)


PROFILES = {
    'plain': Profile(weird=0.06),
    'prio': Profile(p_tag=0.3, tags=PRIO_TAGS, weird=0.05),
    'priomap': Profile(p_tag=0.3, tags=PRIO_TAGS, p_seq=0.0, p_map=0.55, meta=0.2, p_empty=0.05),
    'del': Profile(p_tag=0.35, tags=PRIO_TAGS + DEL_TAGS + DEL_TAGS, p_remove=0.05, weird=0.05),
    'all': Profile(p_tag=0.35, tags=PRIO_TAGS + DEL_TAGS + ['!new', '!unsafe'], p_remove=0.04, weird=0.05),
    'notnew': Profile(p_tag=0.3, tags=PRIO_TAGS + DEL_TAGS + NEW_TAGS + NEW_TAGS, p_remove=0.03, weird=0.05),
    'notnewf': Profile(p_tag=0.3, tags=PRIO_TAGS + DEL_TAGS + NEW_TAGS + NEW_TAGS, dyn=['call', 'bind'], p_dyn=0.25, p_seq=0.3),
    'ops': Profile(p_tag=0.15, tags=PRIO_TAGS + DEL_TAGS, ops=['append', 'extend', 'prev', 'clear'], p_op=0.07, p_seq=0.4),
    'func': Profile(p_tag=0.25, tags=PRIO_TAGS + DEL_TAGS, dyn=['call', 'bind', 'callstr'], p_dyn=0.3),
    'required': Profile(p_tag=0.2, tags=PRIO_TAGS + DEL_TAGS, dyn=['required', 'call'], p_dyn=0.3, p_remove=0.05),
    'safe': Profile(p_tag=0.3, tags=PRIO_TAGS + DEL_TAGS + ['!unsafe', '!unsafe'], dyn=['call', 'bind', 'required', 'callstr'], p_dyn=0.3),
}


def gen_scalar(rng):
    return ('sc', None, rng.choice(SCALARS))


def gen_key(rng, prof, used):
    for _ in range(10):
        if rng.random() < prof.p_intkey:
            k = rng.choice([0, 1, 2])
        elif prof.weird and rng.random() < prof.weird:
            k = rng.choice(WEIRD_KEYS)
        else:
            k = rng.choice(KEYS)
            if prof.underscore and rng.random() < 0.15:
                k = '_' + k
        if k not in used:
            used.add(k)
            return k
    return None


def existing_paths(doc, prefix=()):
    """all paths of a generated document (for operators / references)"""
    out = [prefix]
    if doc[0] == 'map':
        for k, c in doc[2]:
            out += existing_paths(c, prefix + (k,))
    elif doc[0] == 'seq':
        for i, c in enumerate(doc[2]):
            out += existing_paths(c, prefix + (i,))
    return out


def render_path(p):
    s = ''
    for c in p:
        if isinstance(c, int):
            s += f'[{c}]'
        else:
            s += ('.' if s else '') + str(c)
    return s


def gen_node(rng, prof, depth, ctx):
    r = rng.random()
    tag = None
    if rng.random() < prof.p_tag and prof.tags:
        tag = rng.choice(prof.tags)
    if prof.p_remove and rng.random() < prof.p_remove and depth > 0:
        return ('sc', '!del', '')
    if prof.ops and depth > 0 and rng.random() < prof.p_op:
        op = rng.choice(prof.ops)
        if op in ('append', 'extend'):
            n = rng.randint(0, 2)
            return ('seq', '!' + op, [gen_node(rng, prof, prof.max_depth, ctx) for _ in range(n)])
        if op == 'clear':
            return ('sc', '!clear', '')
        if op == 'prev':
            paths = [p for p in ctx.get('paths', []) if p]
            if paths and rng.random() < 0.85:
                return ('sc', '!prev', '"' + render_path(rng.choice(paths)) + '"')
            return ('sc', '!prev', rng.choice(['a', 'b.c', '"a[0]"', 'zz']))
    if prof.dyn and depth > 0 and rng.random() < prof.p_dyn:
        d = rng.choice(prof.dyn)
        if d == 'required':
            return ('sc', '!required', '')
        if d == 'xref':
            paths = [p for p in ctx.get('paths', []) if p]
            if paths:
                return ('sc', '!xref', '"' + render_path(rng.choice(paths)) + '"')
            return ('sc', '!xref', 'a')
        if d == 'callstr':
            return ('sc', rng.choice(['!call', '!bind']), rng.choice(['vmod.f', 'vmod.g']))
        f = rng.choice(['vmod.f', 'vmod.g'])
        kind = rng.choice(['map', 'seq', 'map'])
        t = f'!{d}:{f}'
        if kind == 'map':
            used = set()
            items = []
            for _ in range(rng.randint(0, 2)):
                k = rng.choice([0, 1, 'x', 'y'])
                if k in used:
                    continue
                used.add(k)
                items.append((k, gen_node(rng, prof, depth + 1 if depth + 1 < prof.max_depth else prof.max_depth, ctx)))
            return ('map', t, items)
        return ('seq', t, [gen_node(rng, prof, prof.max_depth, ctx) for _ in range(rng.randint(0, 2))])
    if depth >= prof.max_depth or r >= prof.p_seq + prof.p_map:
        s = gen_scalar(rng)
        if prof.meta and rng.random() < prof.meta:
            m = f"'m{rng.randint(1, 3)}': {rng.randint(1, 9)}"
            if rng.random() < 0.5:
                m += f", 'priority': {rng.choice([1, -1])}"
            tag = '!metadata{{' + m + '}}'
        return ('sc', tag, s[2])
    if r < prof.p_seq:
        n = 0 if rng.random() < prof.p_empty else rng.randint(1, prof.max_width)
        return ('seq', tag, [gen_node(rng, prof, depth + 1, ctx) for _ in range(n)])
    n = 0 if rng.random() < prof.p_empty else rng.randint(1, prof.max_width)
    used = set()
    items = []
    for _ in range(n):
        k = gen_key(rng, prof, used)
        if k is None:
            continue
        items.append((k, gen_node(rng, prof, depth + 1, ctx)))
    return ('map', tag, items)


def gen_doc(rng, prof, ctx=None, root_tag_ok=True):
    ctx = ctx or {}
    n = rng.randint(0 if rng.random() < 0.1 else 1, prof.max_width + 1)
    used = set()
    items = []
    for _ in range(n):
        k = gen_key(rng, prof, used)
        if k is None:
            continue
        items.append((k, gen_node(rng, prof, 1, ctx)))
    tag = None
    if root_tag_ok and prof.tags and rng.random() < prof.p_tag / 2:
        tag = rng.choice(prof.tags)
    return ('map', tag, items)


def related_doc(rng, prof, base, ctx=None):
    """a document that overlaps with `base`: same paths with mutated values / types / tags"""
    ctx = ctx or {}

    def mut(n, depth):
        r = rng.random()
        if prof.ops and depth > 0:
            q = rng.random()
            if n[0] == 'seq' and q < 0.35 and ('append' in prof.ops or 'extend' in prof.ops):
                op = rng.choice([o for o in prof.ops if o in ('append', 'extend')])
                return ('seq', '!' + op, [gen_node(rng, prof, prof.max_depth, ctx) for _ in range(rng.randint(0, 2))])
            if n[0] in ('seq', 'map') and q > 0.9 and 'clear' in prof.ops:
                return ('sc', '!clear', '')
        if r < 0.25:
            return gen_node(rng, prof, depth, ctx)
        if n[0] == 'map':
            items = []
            for k, c in n[2]:
                q = rng.random()
                if q < 0.25:
                    continue
                items.append((k, mut(c, depth + 1)))
            if rng.random() < 0.4:
                used = set(k for k, _ in items)
                k = gen_key(rng, prof, used)
                if k is not None:
                    items.append((k, gen_node(rng, prof, depth + 1, ctx)))
            if rng.random() < 0.3:
                rng.shuffle(items)
            tag = rng.choice(prof.tags) if prof.tags and rng.random() < prof.p_tag else None
            if n[1] and not str(n[1]).startswith(('!force', '!weak', '!del', '!merge', '!new', '!notnew', '!unsafe')):
                tag = n[1] if rng.random() < 0.7 else tag
            return ('map', tag, items)
        if n[0] == 'seq':
            if rng.random() < 0.3 and not (n[1] or '').startswith(('!call', '!bind', '!append', '!extend')):
                # a mapping addressing indices of the list
                items = []
                for i in range(len(n[2]) + 1):
                    if rng.random() < 0.4:
                        items.append((i if rng.random() < 0.9 else -1 - i, gen_node(rng, prof, depth + 1, ctx)))
                tag = rng.choice(prof.tags) if prof.tags and rng.random() < prof.p_tag else None
                return ('map', tag, items)
            items = [mut(c, depth + 1) for c in n[2] if rng.random() < 0.8]
            if rng.random() < 0.3:
                items.append(gen_node(rng, prof, depth + 1, ctx))
            tag = rng.choice(prof.tags) if prof.tags and rng.random() < prof.p_tag else None
            if n[1] and not str(n[1]).startswith(('!force', '!weak', '!del', '!merge', '!new', '!notnew', '!unsafe')):
                tag = n[1] if rng.random() < 0.7 else tag
            return ('seq', tag, items)
        return gen_node(rng, prof, depth, ctx)

    d = mut(base, 0)
    if d[0] != 'map':
        d = gen_doc(rng, prof, ctx)
    if d[1] and d[1].startswith(('!call', '!bind', '!append', '!extend')):
        d = ('map', None, d[2])
    return d


def has_tag(n, tag):
    if n[1] == tag:
        return True
    if n[0] == 'seq':
        return any(has_tag(c, tag) for c in n[2])
    if n[0] == 'map':
        return any(has_tag(c, tag) for _, c in n[2])
    return False


def drop_tag(n, tag, repl=('sc', None, '1')):
    if n[1] == tag:
        return repl
    if n[0] == 'seq':
        return ('seq', n[1], [drop_tag(c, tag, repl) for c in n[2]])
    if n[0] == 'map':
        return ('map', n[1], [(k, drop_tag(c, tag, repl)) for k, c in n[2]])
    return n


def sanitize(doc):
    """shapes the model does not follow faithfully (documented in DESIGN.md): !clear together with !prev in one document
    (the cleared node is shared between the older and the newer tree and !prev may move it)"""
    if has_tag(doc, '!clear') and has_tag(doc, '!prev'):
        doc = drop_tag(doc, '!clear')
    return doc


def gen_history(rng, prof, nmin=1, nmax=4):
    return [sanitize(d) for d in _gen_history(rng, prof, nmin, nmax)]


def _gen_history(rng, prof, nmin=1, nmax=4):
    """a merge sequence: first document random, later ones related to an earlier one (or fresh)"""
    n = rng.randint(nmin, nmax)
    docs = [gen_doc(rng, prof, root_tag_ok=False)]
    for _ in range(n - 1):
        ctx = {'paths': existing_paths(docs[-1]) + existing_paths(docs[0])}
        if rng.random() < 0.8:
            docs.append(related_doc(rng, prof, rng.choice(docs), ctx))
        else:
            docs.append(gen_doc(rng, prof, ctx))
    return docs


def render(n):
    tag = (n[1] + ' ') if n[1] else ''
    if n[0] == 'sc':
        return tag + n[2]
    if n[0] == 'seq':
        return tag + '[' + ', '.join(render(c) for c in n[2]) + ']'
    return tag + '{' + ', '.join(f'{render_key(k)}: {render(c)}' for k, c in n[2]) + '}'


def render_key(k):
    if isinstance(k, int):
        return str(k)
    if k == '':
        return "''"
    k = str(k)
    if not all(ch.isalnum() or ch in '_.-' for ch in k) or k[0] in '-.':
        return "'" + k.replace("'", "''") + "'"
    return k


def strip_tags(n, keep=lambda t: False):
    tag = n[1] if (n[1] and keep(n[1])) else None
    if n[0] == 'sc':
        return ('sc', tag, n[2])
    if n[0] == 'seq':
        return ('seq', tag, [strip_tags(c, keep) for c in n[2]])
    return ('map', tag, [(k, strip_tags(c, keep)) for k, c in n[2]])


def tag_hist(n, h=None):
    h = {} if h is None else h
    if n[1]:
        t = n[1].split(':')[0]
        h[t] = h.get(t, 0) + 1
    if n[0] == 'seq':
        for c in n[2]:
            tag_hist(c, h)
    elif n[0] == 'map':
        for _, c in n[2]:
            tag_hist(c, h)
    return h


def depth(n):
    if n[0] == 'sc':
        return 0
    cs = n[2] if n[0] == 'seq' else [c for _, c in n[2]]
    return 1 + max([depth(c) for c in cs], default=0)
