"""T3 for the merge core: run Builder.flatten on real parsed stages and compare with Model.Merge.flatten in Coq."""
import sys, traceback
from . import ser, gen
from .common import REPO

if REPO not in sys.path:
    sys.path.insert(0, REPO)

HEADER = 'From AY Require Import Model.Merge Model.Eq.\nOpen Scope Z_scope.\n'
CHECK = 'fun c : penv * list node * res node => res_eqb node_eqb true (flatten (fst (fst c)) (snd (fst c))) (snd c)'


def err_term(e, intern):
    from awesomeyaml import errors
    kind = 'EOther'
    if isinstance(e, errors.MergeError):
        kind = 'EMerge'
    elif isinstance(e, errors.PremergeError):
        kind = 'EPremerge'
    elif isinstance(e, errors.PreprocessError):
        kind = 'EPreprocess'
    elif isinstance(e, errors.UnsafeError):
        kind = 'EUnsafe'
    elif isinstance(e, errors.EvalError):
        kind = 'EEval'
    elif isinstance(e, errors.ParsingError):
        kind = 'EParse'
    path = getattr(e, 'path', None)
    try:
        from awesomeyaml.nodes.node_path import NodePath
        p = list(NodePath.get_list_path(path, check_types=False)) if path is not None else []
        pt = ser.path_term(p, intern)
    except Exception:
        pt = '[]'
    return f'(@Err node {kind} {pt})', kind


def parse_stages(texts, safes=None, names=None):
    from awesomeyaml.builder import Builder
    b = Builder()
    for i, t in enumerate(texts):
        b.add_source(t, raw_yaml=True, filename=(names[i] if names else f'<s{i}>'), safe=(safes[i] if safes else None))
    return b


def run_case(texts, safes=None, with_src=True):
    """returns dict(ok, term, kind, stats) ; ok=False when the case cannot be used (parse error, unsupported shape)"""
    intern = ser.Interner()
    out = dict(texts=texts, safes=safes)
    try:
        b = parse_stages(texts, safes)
        b.preprocess()
    except Exception as e:
        out.update(ok=False, why='parse: ' + type(e).__name__ + ': ' + str(e)[:200])
        return out
    if not b.stages:
        out.update(ok=False, why='no stages')
        return out
    stats = {}
    try:
        stage_terms = [ser.node_term(s, intern, stats, with_src) for s in b.stages]
    except (ValueError, ser.Inconsistent) as e:
        out.update(ok=False, why='ser: ' + str(e)[:200], inconsistent=isinstance(e, ser.Inconsistent))
        return out
    try:
        b.flatten()
        root = b.stages[0]
        try:
            exp = f'(Ok {ser.node_term(root, intern, None, with_src)})'
            out['kind'] = 'ok'
        except ser.Inconsistent as e:
            out.update(ok=False, why='result inconsistent: ' + str(e)[:200], inconsistent=True)
            return out
        except ValueError as e:
            out.update(ok=False, why='ser result: ' + str(e)[:200])
            return out
        out['root'] = root
    except Exception as e:
        exp, kind = err_term(e, intern)
        out['kind'] = kind
        out['error'] = type(e).__name__ + ': ' + str(e)[:300]
        if kind == 'EOther':
            out['trace'] = traceback.format_exc()[-1500:]
    penv = ser.penv_term(intern)
    out.update(ok=True, term=f'({penv}, {ser.coq_list(stage_terms)}, {exp})', stats=stats, nstages=len(stage_terms))
    return out


def history_texts(docs):
    return [gen.render(d) for d in docs]
