"""Parent side of C12: runs batches of cases in subprocesses (vlib.evalrun), isolating interpreter crashes and hangs."""
import os, sys, json, subprocess, tempfile
from concurrent.futures import ThreadPoolExecutor
from . import common


def run_batch(cases, timeout=120):
    """returns list of per-case results: list of {lib, native} per build, or {'crash': signal / 'timeout'}"""
    out = [None] * len(cases)
    with tempfile.TemporaryDirectory(prefix='c12_') as td:
        path = os.path.join(td, 'cases.json')
        json.dump(cases, open(path, 'w'))
        start = 0
        while start < len(cases):
            try:
                p = subprocess.run([sys.executable, '-W', 'ignore', '-m', 'vlib.evalrun', path, str(start)], capture_output=True, text=True, timeout=timeout,
                                   cwd=td, env={**os.environ, 'PYTHONPATH': f'{common.REPO}:{common.VERIF}', 'PYTHONHASHSEED': '0'})
                stdout, rc = p.stdout, p.returncode
            except subprocess.TimeoutExpired as e:
                stdout, rc = (e.stdout.decode() if isinstance(e.stdout, bytes) else (e.stdout or '')), 'timeout'
            begun = None
            for line in stdout.splitlines():
                if line.startswith('BEGIN '):
                    begun = int(line.split()[1])
                elif line.startswith('RESULT '):
                    _, i, payload = line.split(' ', 2)
                    out[int(i)] = json.loads(payload)
            if begun is not None and out[begun] is None:
                # the process died while this case ran. An earlier case of the batch may have corrupted the interpreter
                # (patched bytecode with a stale exception table does that): the verdict for this case is its run ALONE.
                solo = run_batch([cases[begun]], timeout) if len(cases) > 1 else [dict(crash=rc)]
                out[begun] = solo[0] if solo[0] is not None else dict(crash=rc)
                start = begun + 1
            elif rc != 0 and begun is None:
                out[start] = dict(crash=rc, stderr='no case started')
                start += 1
            else:
                break
    return out


def run_all(cases, batch=40):
    chunks = [cases[i:i + batch] for i in range(0, len(cases), batch)]
    with ThreadPoolExecutor(common.NCPU) as ex:
        res = list(ex.map(run_batch, chunks))
    return [r for chunk in res for r in chunk]
