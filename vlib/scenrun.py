"""Subprocess scenario runner: builds + evaluates hand-shaped configs (YAML anchors, !eval consumers, ...) through the library and
answers probes, one JSON result line per case.  A crash / hang of the interpreter only kills this process.
usage: python -m vlib.scenrun <cases.json>
case = {texts: [yaml...], probes: [python expressions over cfg / root / calls]}"""
import sys, json


def plain(v):
    if isinstance(v, dict):
        return {str(k): plain(a) for k, a in v.items()}
    if isinstance(v, (list, tuple)):
        return [plain(a) for a in v]
    if isinstance(v, (int, float, str, bool)) or v is None:
        return v
    return repr(type(v).__name__)


def run_case(case):
    from . import evalcorr
    from awesomeyaml.builder import Builder
    from awesomeyaml.config import Config
    from awesomeyaml.eval_context import EvalContext
    evalcorr.install_vmod()
    del evalcorr.CALL_LOG[:]
    if 'script' in case:
        # a multi-step scenario written by the check itself (several builds / evaluations in one process); it sets `result`
        env = dict(Builder=Builder, Config=Config, EvalContext=EvalContext, plain=plain, calls=evalcorr.CALL_LOG, Rec=evalcorr.Rec)
        try:
            exec(case['script'], env)
            return dict(kind='ok', calls=list(evalcorr.CALL_LOG), probes=[], result=env.get('result'))
        except Exception as e:
            return dict(kind='script:' + type(e).__name__, err=str(e)[:300])
    try:
        b = Builder()
        for i, t in enumerate(case['texts']):
            b.add_source(t, raw_yaml=True, filename=f'scen{i}.yaml')
        root = b.build()
    except Exception as e:
        return dict(kind='build:' + type(e).__name__, err=str(e)[:200])
    del evalcorr.CALL_LOG[:]
    try:
        cfg = Config(root)
    except Exception as e:
        return dict(kind=evalcorr.err_kind(e), calls=list(evalcorr.CALL_LOG), err=str(e)[:200], unsafe_cause=bool(evalcorr.has_unsafe_cause(e)))
    calls = list(evalcorr.CALL_LOG)
    out = []
    for p in case.get('probes', []):
        try:
            out.append(eval(p, {'cfg': cfg, 'root': root, 'calls': calls, 'Rec': evalcorr.Rec}))
        except Exception as e:
            out.append('probe-error:' + type(e).__name__)
    return dict(kind='ok', calls=calls, probes=[o if isinstance(o, (bool, int, str, list, type(None))) else repr(o)[:80] for o in out])


def main():
    cases = json.load(open(sys.argv[1]))
    only = int(sys.argv[2]) if len(sys.argv) > 2 else None
    for i, c in enumerate(cases):
        if only is not None and i != only:
            continue
        r = run_case(c)
        print(json.dumps(dict(i=i, **r)), flush=True)


def run_batch(cases, timeout=120):
    """parent side: returns a list of result dicts (kind='CRASH' / 'HANG' where the subprocess died on that case run alone)"""
    import subprocess, os, tempfile
    from . import common
    d = common.scratch('scen')
    f = os.path.join(d, 'cases.json')
    json.dump(cases, open(f, 'w'))
    env = dict(os.environ)
    res = {}

    def go(args, tmo):
        try:
            p = subprocess.run([sys.executable, '-W', 'ignore', '-m', 'vlib.scenrun', f] + args, capture_output=True, text=True, timeout=tmo, env=env,
                               cwd=os.path.dirname(os.path.dirname(os.path.abspath(__file__))))
            out, rc = p.stdout, p.returncode
        except subprocess.TimeoutExpired as e:
            out, rc = (e.stdout.decode() if isinstance(e.stdout, bytes) else (e.stdout or '')), 'timeout'
        for line in out.splitlines():
            try:
                r = json.loads(line)
                res[r['i']] = r
            except Exception:
                pass
        return rc
    go([], timeout)
    for i in range(len(cases)):
        if i not in res:
            rc = go([str(i)], 20)
            if i not in res:
                res[i] = dict(i=i, kind='HANG' if rc == 'timeout' else 'CRASH', rc=str(rc))
    import shutil
    shutil.rmtree(d, ignore_errors=True)
    return [res[i] for i in range(len(cases))]


if __name__ == '__main__':
    main()
