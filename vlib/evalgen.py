"""Program grammar for C12: multi-line Python programs (last line an expression) over config names, context symbols, builtins and
their own definitions; f-strings; build histories."""

CFG = {'a': 3, 'b': 4, 'lst': [5, 1, 4], 'd': {'x': 7, 'y': 2}, 's': 'txt', 'zero': 0, 'id': 11, 'type': 6}   # 'id' / 'type': config entries named like builtins (the entry wins)
SYMS = {'k1': 10, 'b': 40, 'tup': {'fn': 'tup'}}          # 'b' is both a symbol and a config entry: the symbol wins


class Gen:
    def __init__(self, rng, cfg=None, syms=None):
        self.rng = rng
        self.cfg = dict(CFG if cfg is None else cfg)
        self.syms = dict(SYMS if syms is None else syms)
        self.ints = ['a', 'b', 'k1', 'zero'] + [n for n in ('id', 'type') if n in self.cfg]
        self.lists = ['lst']
        self.funcs = []
        self.n = 0
        self.features = set()

    def fresh(self, p):
        self.n += 1
        return f'{p}{self.n}'

    # ---- expressions
    def I(self, d=0):
        r = self.rng.random()
        if d > 2 or r < 0.25:
            return self.rng.choice(self.ints + [str(self.rng.randint(0, 9))])
        if r < 0.45:
            return f'({self.I(d + 1)} {self.rng.choice(["+", "-", "*"])} {self.I(d + 1)})'
        if r < 0.55:
            return f'{self.rng.choice(["len", "sum", "max", "min"])}({self.L(d + 1)})'
        if r < 0.62:
            self.features.add('ifexp')
            return f'({self.I(d + 1)} if {self.C(d + 1)} else {self.I(d + 1)})'
        if r < 0.68:
            return f"d['{self.rng.choice('xy')}']"
        if r < 0.76:
            self.features.add('lambda')
            q = self.fresh('q')
            return f'(lambda {q}: {q} + {self.I(d + 1)})({self.I(d + 1)})'
        if r < 0.86 and self.funcs:
            return f'{self.rng.choice(self.funcs)}({self.I(d + 1)})'
        if r < 0.92:
            self.features.add('genexp')
            v = self.fresh('g')
            return f'sum({v} * {self.I(d + 1)} for {v} in {self.L(d + 1)})'
        return f'abs({self.I(d + 1)})'

    def L(self, d=0):
        r = self.rng.random()
        if d > 2 or r < 0.35:
            return self.rng.choice(self.lists)
        if r < 0.6:
            self.features.add('listcomp')
            v = self.fresh('v')
            cond = f' if {v} > {self.I(d + 1)}' if self.rng.random() < 0.4 else ''
            return f'[{v} + {self.I(d + 1)} for {v} in {self.L(d + 1)}{cond}]'
        if r < 0.75:
            return f'sorted({self.L(d + 1)})'
        if r < 0.85:
            return f'list(range({self.I(d + 1)} % 5))'
        return f'({self.L(d + 1)} + {self.L(d + 1)})'

    def C(self, d=0):
        r = self.rng.random()
        if r < 0.6:
            return f'{self.I(d + 1)} {self.rng.choice([">", "<", "==", "!="])} {self.I(d + 1)}'
        if r < 0.8:
            return f'{self.I(d + 1)} in {self.L(d + 1)}'
        return f'({self.C(d + 1)} and {self.C(d + 1)})'

    # ---- statements
    def stmt(self, ind=''):
        r = self.rng.random()
        out = []
        if r < 0.22:
            x = self.fresh('x')
            out.append(f'{ind}{x} = {self.I()}')
            self.ints.append(x)
        elif r < 0.3:
            name = self.rng.choice(['a', 'k1', 'zero'])      # the code's own definition shadows a config entry / a symbol
            self.features.add('shadow')
            out.append(f'{ind}{name} = {self.I()}')
        elif r < 0.45:
            self.features.add('def')
            f, p = self.fresh('f'), self.fresh('p')
            saved = list(self.ints)
            self.ints.append(p)
            body = [f'{ind}def {f}({p}):']
            if self.rng.random() < 0.4:
                self.features.add('closure')
                y, g, q = self.fresh('y'), self.fresh('h'), self.fresh('r')
                body.append(f'{ind}    {y} = {self.I()}')
                self.ints.append(y)
                body.append(f'{ind}    def {g}({q}):')
                body.append(f'{ind}        return {q} + {y} + {self.I()}')
                body.append(f'{ind}    return {g}({p})')
            else:
                body.append(f'{ind}    return {self.I()}')
            self.ints = saved
            self.funcs.append(f)
            out += body
        elif r < 0.57:
            self.features.add('for')
            x, v = self.fresh('acc'), self.fresh('i')
            out.append(f'{ind}{x} = 0')
            out.append(f'{ind}for {v} in {self.L()}:')
            saved = list(self.ints)
            self.ints.append(v)
            out.append(f'{ind}    {x} = {x} + {self.I()}')
            if self.rng.random() < 0.3:
                out.append(f'{ind}    if {self.C()}:')
                out.append(f'{ind}        {self.rng.choice(["continue", "break"])}')
            self.ints = saved + [x]
        elif r < 0.65:
            self.features.add('while')
            x, c = self.fresh('w'), self.fresh('c')
            out += [f'{ind}{x} = 0', f'{ind}{c} = 0', f'{ind}while {c} < 3:', f'{ind}    {c} = {c} + 1', f'{ind}    {x} = {x} + {self.I()}']
            self.ints.append(x)
        elif r < 0.78:
            self.features.add('try')
            x = self.fresh('t')
            boom = self.rng.choice([f'1 // zero', "d['nope']", 'lst[99]', f'{self.I()}'])
            out += [f'{ind}try:', f'{ind}    {x} = {boom}', f'{ind}except (ZeroDivisionError, KeyError, IndexError):', f'{ind}    {x} = {self.I()}']
            if self.rng.random() < 0.4:
                y = self.fresh('fin')
                out += [f'{ind}finally:', f'{ind}    {y} = {self.I()}']
                self.ints.append(y)
            self.ints.append(x)
        elif r < 0.86:
            self.features.add('with')
            x = self.fresh('cm')
            out += [f'{ind}import contextlib', f'{ind}with contextlib.nullcontext({self.I()}) as {x}:', f'{ind}    {x} = {x} + {self.I()}']
            self.ints.append(x)
        elif r < 0.93:
            self.features.add('import')
            x = self.fresh('m')
            out += [f'{ind}import math', f'{ind}from functools import reduce', f'{ind}{x} = math.floor({self.I()} / 2) + reduce(lambda u, w: u + w, {self.L()}, 0)']
            self.ints.append(x)
        else:
            self.features.add('if')
            x = self.fresh('b')
            out += [f'{ind}if {self.C()}:', f'{ind}    {x} = {self.I()}', f'{ind}else:', f'{ind}    {x} = {self.I()}']
            self.ints.append(x)
        return out

    def program(self, nstmts=None, long=False, failing=False):
        lines = []
        for _ in range(self.rng.randint(0, 5) if nstmts is None else nstmts):
            lines += self.stmt()
        if long:
            self.features.add('long')
            x = self.fresh('big')
            lines.append(f'{x} = 0')
            lines.append(f'for {x}i in range(3):')
            for j in range(self.rng.randint(40, 70)):
                lines.append(f'    {x} = {x} + {self.rng.choice(self.ints)} + {j}')
            self.ints.append(x)
        if failing:
            self.features.add('raises')
            lines.append(self.rng.choice(['def boom(n):\n    raise ValueError(n)', 'boom = lambda n: 1 // zero', "def boom(n):\n    return d['missing']"]))
            lines.append(f'boom({self.I()})')
        else:
            lines.append(self.rng.choice([self.I(), self.L(), f'({self.I()}, {self.L()})', f'tup({self.I()})']))
        return '\n'.join(lines)

    def helpers_program(self):
        """only definitions before the last line (no module-level name load in the executed part): helpers that read config names /
        symbols / builtins or nothing at all, as defs, lambdas and nested defs, in random order; the last line calls them"""
        self.features.add('helpers')
        lines, calls = [], []
        for _ in range(self.rng.randint(1, 4)):
            f = self.fresh('hf')
            reads = self.rng.choice([None, None, 'a', 'b', 'k1', 'len(lst)', "d['x']"])
            body = f'{reads} + 1' if reads else '7'
            kind = self.rng.random()
            if kind < 0.4:
                lines += [f'def {f}(u=2):', f'    return u * 2 + {body}']
            elif kind < 0.7:
                lines.append(f'{f} = lambda u=2: u + {body}')
            else:
                h = self.fresh('hn')
                lines += [f'def {f}(u=2):', f'    def {h}():', f'        return {body}', f'    return {h}() + u']
            calls.append(f'{f}()')
        lines.append('(' + ', '.join(calls) + ',)' if len(calls) > 1 else calls[0])
        return '\n'.join(lines)

    def fstring(self):
        parts = []
        for _ in range(self.rng.randint(1, 4)):
            r = self.rng.random()
            if r < 0.5:
                parts.append('{' + self.I() + self.rng.choice(['', ':>4', '!r', ':03d']) + '}')
            elif r < 0.65:
                parts.append('{' + self.L() + '}')
            elif r < 0.75:
                parts.append('{s}')
            elif r < 0.85:
                parts.append('{{lit}}')
            else:
                parts.append(self.rng.choice([' and ', ' - ', ' / ', ' ']))
        return ''.join(parts)
