"""Helpers shared by the property oracles: generated document trees <-> plain data, running the implementation."""
import yaml as pyyaml
from . import gen, mergecorr
from .props import base


def scalar_value(text):
    if text == '':
        return None
    return pyyaml.load(text, Loader=pyyaml.SafeLoader)


def doc_plain(n):
    """plain Python content of a generated tree with every tag erased"""
    if n[0] == 'sc':
        return scalar_value(n[2])
    if n[0] == 'seq':
        return [doc_plain(c) for c in n[2]]
    return {k: doc_plain(c) for k, c in n[2]}


def tag_priority(tag):
    if not tag:
        return None
    if tag.startswith('!force'):
        return 1
    if tag.startswith('!weak'):
        return -1
    if tag.startswith('!metadata'):
        if "'priority': 1" in tag:
            return 1
        if "'priority': -1" in tag:
            return -1
    return None


def tag_metadata_keys(tag):
    import re
    if not tag or not tag.startswith('!metadata'):
        return []
    return [k for k in re.findall(r"'(\w+)':", tag) if k != 'priority']


def leaves(n, prefix=(), prio=None):
    """(path, value-text, effective priority, own tag) of every scalar leaf; priority inherited from the nearest tagged ancestor"""
    p = tag_priority(n[1])
    eff = p if p is not None else prio
    if n[0] == 'sc':
        yield prefix, n, (eff if eff is not None else 0)
    elif n[0] == 'map':
        for k, c in n[2]:
            yield from leaves(c, prefix + (k,), eff)
    else:
        for i, c in enumerate(n[2]):
            yield from leaves(c, prefix + (i,), eff)


def node_at(n, path):
    for c in path:
        if n[0] == 'map':
            d = dict(n[2])
            if c not in d:
                return None
            n = d[c]
        elif n[0] == 'seq':
            if not isinstance(c, int) or not (0 <= c < len(n[2])):
                return None
            n = n[2][c]
        else:
            return None
    return n


def nested_priority_conflict(n, outer=None):
    p = tag_priority(n[1])
    if p is not None and outer is not None:
        return True
    o = p if p is not None else outer
    cs = [c for _, c in n[2]] if n[0] == 'map' else (n[2] if n[0] == 'seq' else [])
    return any(nested_priority_conflict(c, o) for c in cs)


def build(texts, safes=None):
    """('ok', root) | ('MergeError'|..., message)"""
    from awesomeyaml import errors
    try:
        b = mergecorr.parse_stages(texts, safes)
        root = b.build()
        return 'ok', root
    except errors.Error as e:
        return type(e).__name__, str(e)[:300]


def build_plain(texts, safes=None):
    k, r = build(texts, safes)
    if k == 'ok':
        return 'ok', base.to_plain(r)
    return k, r


def lookup(plain, path):
    cur = plain
    for c in path:
        if isinstance(cur, dict):
            if c not in cur:
                return KeyError
            cur = cur[c]
        elif isinstance(cur, list):
            if not isinstance(c, int) or not (0 <= c < len(cur)):
                return KeyError
            cur = cur[c]
        else:
            return KeyError
    return cur


def node_lookup(root, path):
    from awesomeyaml.nodes.composed import ComposedNode
    cur = root
    for c in path:
        if not isinstance(cur, ComposedNode) or c not in cur._children:
            return None
        cur = cur._children[c]
    return cur


def all_paths(plain, prefix=()):
    out = [prefix]
    if isinstance(plain, dict):
        for k, v in plain.items():
            out += all_paths(v, prefix + (k,))
    elif isinstance(plain, list):
        for i, v in enumerate(plain):
            out += all_paths(v, prefix + (i,))
    return out


def wrap(n, keys):
    for k in reversed(keys):
        n = ('map', None, [(k, n)])
    return n
