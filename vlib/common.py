"""Shared plumbing for the checks: building the Coq development, evaluating case files, evidence, replays."""
import os, sys, json, time, re, subprocess, hashlib, fcntl, shutil, tempfile, random
from concurrent.futures import ThreadPoolExecutor

VERIF = os.path.dirname(os.path.dirname(os.path.abspath(__file__)))
REPO = os.environ.get('AY_REPO', '/repo')
COQ = os.environ.get('VERIF_COQ_DIR') or os.path.join(VERIF, 'coq')          # overridable: parallel seed passes work on copies
EVIDENCE = os.environ.get('VERIF_EVIDENCE_DIR') or os.path.join(VERIF, 'evidence')
REPLAYS = os.environ.get('VERIF_REPLAY_DIR') or os.path.join(VERIF, 'replays')
PY = '/venv/bin/python'
ENV = {**os.environ, 'PYTHONPATH': REPO, 'PYTHONHASHSEED': '0', 'AY_REPO': REPO}
NCPU = min(16, os.cpu_count() or 4)


def seed():
    try:
        return int(os.environ.get('VERIF_SEED', '12345'))
    except ValueError:
        return 12345


def sh(cmd, timeout=600, cwd=None, env=None):
    p = subprocess.run(cmd, shell=isinstance(cmd, str), cwd=cwd, env=env or ENV, capture_output=True, text=True, timeout=timeout)
    return p.returncode, p.stdout + p.stderr


class Lock:
    def __init__(self, name='build'):
        self.path = os.path.join(COQ if os.environ.get('VERIF_COQ_DIR') else VERIF, '.lock_' + name)

    def __enter__(self):
        self.f = open(self.path, 'w')
        fcntl.flock(self.f, fcntl.LOCK_EX)
        return self

    def __exit__(self, *a):
        fcntl.flock(self.f, fcntl.LOCK_UN)
        self.f.close()


def build_coq(targets=None, timeout=1500):
    """T1 + proof re-check: regenerate Gen/Facts.v from /repo, then `make -k` (full .vo build, incremental).
    Returns dict(ok, facts_ok, log, failed=[files], wall_s)."""
    t0 = time.time()
    with Lock('build'):
        rc, out = sh([PY, os.path.join(VERIF, 'tools', 'extract_facts.py'), os.path.join(COQ, 'Gen', 'Facts.v')], timeout=120)
        facts_ok = rc == 0
        facts_log = out
        # T1b: translate the pure decision functions from the Python source (fail-closed: on failure Gen/Src.v is emptied, so that
        # Proofs/SrcOk.v - which proves the translation equal to the hand-written model - cannot be up to date)
        src_v = os.path.join(COQ, 'Gen', 'Src.v')
        rc2, out2 = sh([PY, os.path.join(VERIF, 'tools', 'translate_src.py'), src_v], timeout=120)
        src_ok = rc2 == 0
        if not src_ok:
            stub = '(* translation FAILED: ' + out2.strip().splitlines()[-1].replace('*)', '* )')[:300] + ' *)\n'
            if not os.path.exists(src_v) or open(src_v).read() != stub:
                open(src_v, 'w').write(stub)
        # T1c: the control skeletons of the four on_merge_impl methods, translated over the model's primitives (fail-closed likewise)
        srcm_v = os.path.join(COQ, 'Gen', 'SrcMerge.v')
        rc3, out3 = sh([PY, os.path.join(VERIF, 'tools', 'translate_merge.py'), srcm_v], timeout=120)
        srcm_ok = rc3 == 0
        if not srcm_ok:
            stub = '(* translation FAILED: ' + (out3.strip().splitlines() or ['?'])[-1].replace('*)', '* )')[:300] + ' *)\n'
            if not os.path.exists(srcm_v) or open(srcm_v).read() != stub:
                open(srcm_v, 'w').write(stub)
        # T1d: the control skeleton of EvalContext.evaluate_node over the primitives of Model/Eval.v (fail-closed likewise)
        srce_v = os.path.join(COQ, 'Gen', 'SrcEval.v')
        rc4, out4 = sh([PY, os.path.join(VERIF, 'tools', 'translate_eval.py'), srce_v], timeout=120)
        srce_ok = rc4 == 0
        if not srce_ok:
            stub = '(* translation FAILED: ' + (out4.strip().splitlines() or ['?'])[-1].replace('*)', '* )')[:300] + ' *)\n'
            if not os.path.exists(srce_v) or open(srce_v).read() != stub:
                open(srce_v, 'w').write(stub)
        if not os.path.exists(os.path.join(COQ, 'Makefile')):
            sh('coq_makefile -f _CoqProject -o Makefile', cwd=COQ)
        cmd = f'timeout {timeout} make -k -j{NCPU} ' + (' '.join(targets) if targets else '')
        rc, out = sh(cmd, cwd=COQ, timeout=timeout + 30)
    failed = re.findall(r'\[Makefile[^\]]*: ([^\]]+\.vo)\] Error', out)
    errs = re.findall(r'File "\./([^"]+)", line (\d+)[^\n]*\n(Error:[^\n]*(?:\n[^\n]+){0,6})', out)
    return dict(ok=(rc == 0 and facts_ok and src_ok and srcm_ok and srce_ok), srce_ok=srce_ok, srce_log=out4, facts_ok=facts_ok, facts_log=facts_log, src_ok=src_ok, src_log=out2, srcm_ok=srcm_ok, srcm_log=out3, log=out[-6000:], failed=sorted(set(failed)),
                errors=[dict(file=f, line=int(l), msg=m[:600]) for f, l, m in errs], wall_s=time.time() - t0)


def vo_ok(rel):
    """is coq/<rel>.vo present and up to date w.r.t. its sources (make -q)?"""
    rc, _ = sh(f'make -q {rel}.vo', cwd=COQ)
    return rc == 0 and os.path.exists(os.path.join(COQ, rel + '.vo'))


def print_assumptions(module, names):
    """Run Print Assumptions for theorems of a compiled module; returns {name: text}"""
    d = scratch('pa')
    try:
        src = f'From AY Require Import {module}.\n' + ''.join(f'Print Assumptions {n}.\n' for n in names)
        with open(os.path.join(d, 'pa.v'), 'w') as f:
            f.write(src)
        rc, out = sh(f'timeout 300 coqc -Q {COQ} AY pa.v', cwd=d, timeout=330)
        if rc != 0:
            return None, out
        parts = re.split(r'(?=Closed under the global context|Axioms:)', out)
        parts = [p.strip() for p in parts if p.strip()]
        return dict(zip(names, parts)), out
    finally:
        shutil.rmtree(d, ignore_errors=True)


def scratch(tag):
    base = os.path.join(VERIF, '.scratch')
    os.makedirs(base, exist_ok=True)
    return tempfile.mkdtemp(prefix=tag + '_', dir=base)


def run_case_files(tag, header, items, check, shard=250, timeout=900, keep=False, pre=''):
    """items: list of Coq terms (each one case). `check` is a Coq function name/expression of type case -> bool.
    Writes sharded files; each defines `cases` and evaluates `bad_idx check cases 0` with vm_compute.
    Returns (bad_indices, errors, wall_s, checker_cmd)."""
    t0 = time.time()
    d = scratch(tag)
    files = []
    for si in range(0, len(items), shard):
        name = f'cases_{tag}_{si // shard}.v'
        with open(os.path.join(d, name), 'w') as f:
            f.write(header + '\n' + pre + '\nDefinition cases := [\n' + ';\n'.join(items[si:si + shard]) + '\n].\n')
            f.write(f'Definition bad := Eval vm_compute in bad_idx ({check}) cases 0.\nPrint bad.\n')
        files.append((si, name))
    bad, errors = [], []

    def run(sn):
        si, name = sn
        rc, out = sh(f'ulimit -s unlimited 2>/dev/null; timeout {timeout} coqc -Q {COQ} AY {name}', cwd=d, timeout=timeout + 30)
        if rc != 0:
            return si, None, out[-3000:]
        m = re.search(r'bad\s*=\s*(\[[^\]]*\])', out.replace('\n', ' '))
        if not m:
            return si, None, out[-3000:]
        idx = [int(x.replace('%Z', '').replace('(', '').replace(')', '')) for x in m.group(1).strip('[]').split(';') if x.strip()]
        return si, idx, ''

    with ThreadPoolExecutor(NCPU) as ex:
        for si, idx, err in ex.map(run, files):
            if idx is None:
                errors.append(dict(shard=si, log=err))
            else:
                bad.extend(si + i for i in idx)
    cmd = f'coqc -Q {COQ} AY cases_{tag}_<n>.v   (Eval vm_compute in bad_idx ({check}) cases 0; {len(files)} shard(s))'
    if not keep:
        shutil.rmtree(d, ignore_errors=True)
    return sorted(bad), errors, time.time() - t0, cmd


def coq_eval(header, expr, timeout=120):
    """evaluate one expression with vm_compute and return coqc's printed output (debugging / replays)"""
    d = scratch('eval')
    try:
        with open(os.path.join(d, 'e.v'), 'w') as f:
            f.write(header + f'\nEval vm_compute in ({expr}).\n')
        rc, out = sh(f'ulimit -s unlimited 2>/dev/null; timeout {timeout} coqc -Q {COQ} AY e.v', cwd=d, timeout=timeout + 30)
        return rc, out
    finally:
        shutil.rmtree(d, ignore_errors=True)


# ---------------------------------------------------------------- known findings

def known_findings():
    p = os.path.join(VERIF, 'known_findings.json')
    if not os.path.exists(p):
        return []
    return json.load(open(p)).get('known', [])


# ---------------------------------------------------------------- reporting

ASSUMPTIONS = {
    '*': ['interned identifiers (strings -> Z) are injective',
          'the theorems are about the Gallina model; the tie to /repo is the regenerated Gen/Facts.v plus the correspondence runs listed in obligation_list (sampled unless marked exhaustive)',
          'the fuel given to on_merge / the evaluator in the model suffices (C05_fuel_irrelevant; bounds stated in the theorems otherwise)'],
    'C06': ['files do not change during a build; the file system is the section variable exists_in; symbolic links are not modelled (normpath is lexical in the code as well)'],
    'C07': ['recording callables stand for arbitrary targets; what runs INSIDE a called function is outside the model'],
    'C10': ['callables are functions of their arguments'],
    'C12': ['CPython compile / exec / eval and the execution of patched bytecode are outside the model (differential oracle only)'],
    'C13': ['inspect.signature of the target is given; only its parameter kinds and names matter'],
    'C18': ['PyYAML emitter / scanner are trusted; the dump model covers mappings, lists, scalars and null'],
    'C19': ['pickle / copy protocols are trusted to call __reduce__ / __deepcopy__ as documented'],
    'C20': ['threading.local gives per-thread storage; the GIL makes a Python line touching a slot atomic; state not found by the ast scan is not modelled'],
}


class Report:
    """Collects what one check run did; writes evidence; prints VIOLATION / KNOWN-FINDING lines."""

    def __init__(self, pid, tier):
        self.pid, self.tier = pid, tier
        self.t0 = time.time()
        self.obligations = []      # (name, ok, detail)
        self.samples = []
        self.evaluations = 0
        self.distinct = set()
        self.hist = {}
        self.violations = []       # (replay_path, no_failing_input)
        self.known_hits = []
        self.trusted = []
        self.checker_cmds = []
        self.extra = {}
        self.assumptions = []
        self.rule = ''

    def oblige(self, name, ok, detail=''):
        self.obligations.append((name, bool(ok), detail))

    def count(self, key, n=1):
        self.hist[key] = self.hist.get(key, 0) + n

    def case(self, canonical, nontrivial, sample=None):
        self.evaluations += 1
        if nontrivial:
            self.distinct.add(hashlib.sha1(canonical.encode()).hexdigest())
        if sample is not None and len(self.samples) < 6:
            self.samples.append(sample)

    def violation(self, what, replay, no_input=False):
        d = os.path.join(REPLAYS, self.pid)
        os.makedirs(d, exist_ok=True)
        body = json.dumps(dict(property=self.pid, what=what, replay=replay, no_failing_input_found=no_input), indent=1, default=str)
        h = hashlib.sha1(body.encode()).hexdigest()[:12]
        path = os.path.join(d, h + '.json')
        with open(path, 'w') as f:
            f.write(body)
        self.violations.append((path, no_input, what))

    def known(self, what):
        if what not in self.known_hits:
            self.known_hits.append(what)

    def finish(self):
        wall = time.time() - self.t0
        n_ob = len(self.obligations)
        n_ok = sum(1 for _, ok, _ in self.obligations if ok)
        ev = dict(
            property_id=self.pid, tier=self.tier, seed=seed(), level='proof',
            coverage=dict(
                obligations=max(n_ob, 1), discharged=n_ok if n_ob else 0,
                checker_cmd=' ; '.join(self.checker_cmds) or 'make -C coq',
                trusted_base=self.trusted,
                evaluations=self.evaluations, distinct_nontrivial=len(self.distinct), rule=self.rule,
                samples=self.samples or [o[0] for o in self.obligations[:5]],
                obligation_list=[dict(name=n, ok=ok, detail=d) for n, ok, d in self.obligations],
                histogram=self.hist, known_findings_reproduced=self.known_hits, **self.extra),
            assumptions=self.assumptions or ASSUMPTIONS.get(self.pid, []) + ASSUMPTIONS['*'], wall_s=round(wall, 2), violations=len(self.violations))
        os.makedirs(EVIDENCE, exist_ok=True)
        with open(os.path.join(EVIDENCE, self.pid + '.json'), 'w') as f:
            json.dump(ev, f, indent=1, default=str)
        for k in self.known_hits:
            print(f'KNOWN-FINDING: property={self.pid} {k}')
        for path, no_input, what in self.violations:
            print(f'VIOLATION property={self.pid} replay={path}' + (' no-failing-input-found' if no_input else ''))
        print(f'[{self.pid}] {self.tier}: obligations {n_ok}/{n_ob}, cases {self.evaluations} ({len(self.distinct)} distinct non-trivial), '
              f'violations {len(self.violations)}, known {len(self.known_hits)}, {wall:.1f}s')
        return 1 if self.violations else 0
