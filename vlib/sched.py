"""Deterministic thread scheduler for the real code (C20): threads run under sys.settrace and hand a baton over at chosen
line events of awesomeyaml code, so that a schedule (a list of segments) is replayed exactly.  Also extracts, from the same
trace, the slot actions a build performs (the thread programs of Model/Threads.v) and the values the code actually read."""
import os, re, sys, threading

REPO = os.environ.get('AY_REPO', '/repo')
AY_DIR = os.path.join(REPO, 'awesomeyaml') + os.sep

# slot-touching lines, recognised by their text (robust against line shifts; a rewritten line is a broken tie, reported as such)
SLOT_PATTERNS = [
    (r'ConfigNode\._default_filename\.value = None\s*$', ('Init', 'SFile')),
    (r'ConfigNode\._default_safe\.value = True\s*$', ('Init', 'SSafe')),
    (r'old = ConfigNode\._default_filename\.value\s*$', ('Load', 'SFile')),
    (r'old = ConfigNode\._default_safe\.value\s*$', ('Load', 'SSafe')),
    (r'ConfigNode\._default_filename\.value = filename\s*$', ('Store', 'SFile')),
    (r'ConfigNode\._default_safe\.value = value and old\s*$', ('StoreAnd', 'SSafe')),
    (r'ConfigNode\._default_filename\.value = old\s*$', ('Restore', 'SFile')),
    (r'ConfigNode\._default_safe\.value = old\s*$', ('Restore', 'SSafe')),
    (r'self\._source_file = .*ConfigNode\._default_filename', ('Obs', 'SFile')),
    (r'self\._default_safe = getattr\(ConfigNode\._default_safe', ('Obs', 'SSafe')),
    (r'if getattr\(_api_entered, .value., False\)', ('Obs', 'SApi')),
    (r'_api_entered\.value = True\s*$', ('ApiSet', 'SApi')),
    (r'_api_entered\.value = False\s*$', ('ApiClear', 'SApi')),
]


def slot_lines():
    """{(filename, lineno): (action, slot)} for every line of node.py / errors.py that touches one of the three slots"""
    out = {}
    mentioned = 0
    for rel in ('nodes/node.py', 'errors.py'):
        path = os.path.join(REPO, 'awesomeyaml', rel)
        for i, line in enumerate(open(path, newline='').read().replace('\r\n', '\n').split('\n'), 1):
            code = line.split('#')[0]
            if re.search(r'_default_filename\b(?!\()|ConfigNode\._default_safe\b|_api_entered\b', code) and 'threading.local' not in code and 'hasattr' not in code:
                mentioned += 1
                for pat, act in SLOT_PATTERNS:
                    if re.search(pat, code):
                        out[(path, i)] = act
                        break
                else:
                    out[(path, i)] = ('Unknown', code.strip())
    return out


class Deadlock(Exception):
    pass


class Scheduler:
    """plan: list of (tid, k): thread tid may execute k yield-point lines (None: run until it finishes); after the plan the
    unfinished threads run to completion in tid order.  mode: 'all' (every line of awesomeyaml code is a yield point) or
    'slots' (only slot-touching lines)."""

    def __init__(self, nthreads, plan, mode='all', record=False):
        self.n = nthreads
        self.plan = list(plan)
        self.mode = mode
        self.idx = 0
        self.used = 0
        self.finished = set()
        self.cv = threading.Condition()
        self.slots = slot_lines()
        self.record = record
        self.events = [[] for _ in range(nthreads)]      # slot actions per thread: (action, slot, value)
        self.observed = [[] for _ in range(nthreads)]    # values the code read at Obs lines: (slot, value)
        self.lines = [[] for _ in range(nthreads)]       # with record: (file, lineno) of every yield point
        self.pending = [None] * nthreads
        self.error = None

    # ---- baton
    def _current(self):
        while self.idx < len(self.plan) and self.plan[self.idx][0] in self.finished:
            self.idx += 1
            self.used = 0
        if self.idx < len(self.plan):
            return self.plan[self.idx]
        return None

    def yield_point(self, tid):
        with self.cv:
            waited = 0
            while True:
                seg = self._current()
                if seg is None:
                    rest = [t for t in range(self.n) if t not in self.finished]
                    if not rest or rest[0] == tid:
                        return True
                elif seg[0] == tid:
                    if seg[1] is None:
                        return True          # runs to completion: the caller may stop tracing
                    if self.used < seg[1]:
                        self.used += 1
                        return
                    self.idx += 1
                    self.used = 0
                    self.cv.notify_all()
                    continue
                if not self.cv.wait(timeout=2.0):
                    waited += 1
                    if waited > 5:
                        self.error = 'deadlock'
                        raise Deadlock()

    def finish(self, tid):
        with self.cv:
            self.finished.add(tid)
            self.cv.notify_all()

    # ---- tracing
    def tracer(self, tid):
        slots = self.slots

        def enc(v):
            return v

        def local(frame, event, arg):
            p = self.pending[tid]
            if p is not None and p[0] is frame and event in ('line', 'return'):
                self.pending[tid] = None
                try:
                    self.observed[tid].append((p[1], getattr(frame.f_locals['self'], p[2])))
                except Exception:
                    self.observed[tid].append((p[1], '?'))
            if event != 'line':
                return local
            key = (frame.f_code.co_filename, frame.f_lineno)
            act = slots.get(key)
            if act is not None and act == ('Obs', 'SFile') and frame.f_locals.get('source_file') is not None:
                act = None      # the constructor was given an explicit source file: the slot is not read
            if self.mode == 'all' or act is not None:
                if self.record:
                    self.lines[tid].append(key)
                if self.yield_point(tid) and self.mode == 'all' and not self.record:
                    sys.settrace(None)
                    return None
            if act is not None:
                a, s = act
                val = None
                if a == 'Store':
                    val = frame.f_locals.get('filename')
                elif a == 'StoreAnd':
                    val = bool(frame.f_locals.get('value'))
                elif a == 'Obs' and s == 'SFile':
                    self.pending[tid] = (frame, s, '_source_file')
                elif a == 'Obs' and s == 'SSafe':
                    self.pending[tid] = (frame, s, '_default_safe')
                elif a == 'Obs' and s == 'SApi':
                    import awesomeyaml.errors as E
                    self.observed[tid].append((s, getattr(E._api_entered, 'value', False)))
                self.events[tid].append((a, s, val))
            return local

        def glob(frame, event, arg):
            if event == 'call' and frame.f_code.co_filename.startswith(AY_DIR):
                return local
            return None
        return glob

    def run(self, works):
        results = [None] * self.n

        def target(tid):
            sys.settrace(self.tracer(tid))
            try:
                if self.mode == 'all' and self.yield_point(tid) and not self.record:
                    sys.settrace(None)
                try:
                    results[tid] = ('ok', works[tid]())
                except Deadlock:
                    results[tid] = ('deadlock', None)
                except BaseException as e:
                    results[tid] = ('error', e)
            finally:
                sys.settrace(None)
                self.finish(tid)
        ths = [threading.Thread(target=target, args=(i,), daemon=True) for i in range(self.n)]
        for t in ths:
            t.start()
        for t in ths:
            t.join(timeout=60)
        return results
