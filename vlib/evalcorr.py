"""T3 for the evaluator: Config(tree) on the real implementation vs Model.Eval.config in Coq.

Call targets live in a synthetic module `vmod` whose functions record their invocation and return a Rec object."""
import sys, types, threading, random
from . import ser, gen, mergecorr
from .common import REPO

HEADER = 'From AY Require Import Model.Eval Model.Eq.\nOpen Scope Z_scope.\n'
# case: (penv, fenv, tree, expected) ; expected = Ok (canonical value, list of called targets) | Err kind
CHECK = ('fun c : penv * fenv * node * res (value * list scalar) => '
         'match config (fst (fst (fst c))) (snd (fst (fst c))) (snd (fst c)), snd c with '
         '| Ok (v, st), Ok (v\', cl) => (value_eqb (fst (canon v [])) v\' && list_eqb scalar_eqb (calls (log st)) cl)%bool '
         '| Err e _, Err e\' _ => ek_eqb e e\' | _, _ => false end')

CALL_LOG = []


class Rec:
    def __init__(self, f, args, kwargs):
        self.f, self.args, self.kwargs = f, args, kwargs

    def __repr__(self):
        return f'Rec({self.f}, {self.args}, {self.kwargs})'


# names of the positional parameters of each target (what integer argument keys may address)
SIGS = {'vmod.f': [], 'vmod.g': [], 'vmod.h': ['a', 'b'], 'vmod.k': ['x']}


def install_vmod():
    if 'vmod' in sys.modules:
        return sys.modules['vmod']
    m = types.ModuleType('vmod')

    def f(*args, **kwargs):
        CALL_LOG.append('vmod.f')
        return Rec('vmod.f', args, kwargs)

    def g(*args, **kwargs):
        CALL_LOG.append('vmod.g')
        return Rec('vmod.g', args, kwargs)

    # h and k accept anything but ADVERTISE a signature with named parameters: _resolve_args reads the signature, the call itself
    # cannot fail on binding (Python's own argument binding is checked separately for C13 with real signatures)
    import inspect
    P = inspect.Parameter

    def h(*args, **kwargs):
        CALL_LOG.append('vmod.h')
        return Rec('vmod.h', args, kwargs)
    h.__signature__ = inspect.Signature([P('a', P.POSITIONAL_OR_KEYWORD), P('b', P.POSITIONAL_OR_KEYWORD, default=2), P('args', P.VAR_POSITIONAL),
                                         P('c', P.KEYWORD_ONLY, default=3), P('kw', P.VAR_KEYWORD)])

    def k(*args, **kwargs):
        CALL_LOG.append('vmod.k')
        return Rec('vmod.k', args, kwargs)
    k.__signature__ = inspect.Signature([P('x', P.POSITIONAL_OR_KEYWORD, default=0), P('kw', P.VAR_KEYWORD)])
    m.f, m.g, m.h, m.k = f, g, h, k
    for fn in (f, g, h, k):
        fn.__module__ = 'vmod'
    sys.modules['vmod'] = m
    return m


def value_term(v, intern, ids):
    """canonical term of an evaluated object; ids: id(obj) -> number in order of first encounter"""
    import functools, pathlib
    from awesomeyaml.nodes.node import ConfigNode
    if isinstance(v, ConfigNode):
        raise ValueError('a node object inside the evaluated config')

    def oid(o):
        if id(o) not in ids:
            ids[id(o)] = (len(ids) + 1, o)
        return ids[id(o)][0]
    if isinstance(v, Rec):
        o = oid(v)
        return f'(VCallRes {o} (SStr {intern(v.f)}) {ser.coq_list(value_term(a, intern, ids) for a in v.args)} ' + \
               ser.coq_list(f'({ser.key_term(k, intern)}, {value_term(a, intern, ids)})' for k, a in v.kwargs.items()) + ')'
    if isinstance(v, functools.partial):
        o = oid(v)
        name = v.func.__module__ + '.' + v.func.__name__
        return f'(VPartial {o} (SStr {intern(name)}) {ser.coq_list(value_term(a, intern, ids) for a in v.args)} ' + \
               ser.coq_list(f'({ser.key_term(k, intern)}, {value_term(a, intern, ids)})' for k, a in v.keywords.items()) + ')'
    if isinstance(v, dict):
        o = oid(v)
        return f'(VD {o} ' + ser.coq_list(f'({ser.key_term(k, intern)}, {value_term(a, intern, ids)})' for k, a in v.items()) + ')'
    if isinstance(v, list):
        o = oid(v)
        return f'(VL {o} {ser.coq_list(value_term(a, intern, ids) for a in v)})'
    if isinstance(v, types.FunctionType):
        return f'(VImport (SStr {intern(v.__module__ + "." + v.__name__)}))'
    if isinstance(v, pathlib.PurePath):
        return f'(VOpaque {oid(v)} 1)'
    return f'(VS ({ser.scalar_term(v, intern)}))'


def fenv_term(intern):
    return ser.coq_list(f'({intern(n)}, {ser.coq_list(str(intern(p)) for p in ps)})' for n, ps in SIGS.items())


def err_kind(e):
    from awesomeyaml import errors
    if isinstance(e, errors.UnsafeError):
        return 'EUnsafe'
    if isinstance(e, errors.EvalError):
        return 'EEval'
    if isinstance(e, ValueError) and 'required nodes have not been set' in str(e):
        return 'EMissing'
    return 'EOther'


def has_unsafe_cause(e):
    from awesomeyaml import errors
    seen = 0
    while e is not None and seen < 20:
        if isinstance(e, errors.UnsafeError):
            return True
        e = e.__cause__ or e.__context__
        seen += 1
    return False


def run_case(texts, safes=None):
    """merge the documents, then evaluate; returns dict(ok, term, kind, ...)"""
    from awesomeyaml.config import Config
    install_vmod()
    intern = ser.Interner()
    out = dict(texts=texts, safes=safes)
    try:
        b = mergecorr.parse_stages(texts, safes)
        root = b.build()
    except Exception as e:
        out.update(ok=False, why='build: ' + type(e).__name__)
        return out
    if root is None:
        out.update(ok=False, why='empty')
        return out
    try:
        tree = ser.node_term(root, intern)
    except (ValueError, ser.Inconsistent) as e:
        out.update(ok=False, why='ser: ' + str(e)[:100])
        return out
    del CALL_LOG[:]
    try:
        cfg = Config(root)
        ids = {}
        vt = value_term(cfg, intern, ids)
        calls = ser.coq_list(f'(SStr {intern(c)})' for c in CALL_LOG)
        exp = f'(Ok ({vt}, {calls}))'
        out.update(kind='ok', cfg=cfg, calls=list(CALL_LOG))
    except RecursionError:
        exp = '(@Err (value * list scalar) EEval [])'
        out.update(kind='EEval')
    except Exception as e:
        k = err_kind(e)
        exp = f'(@Err (value * list scalar) {k} [])'
        out.update(kind=k, error=type(e).__name__ + ': ' + str(e)[:200], unsafe_cause=has_unsafe_cause(e), calls=list(CALL_LOG))
    penv = ser.penv_term(intern)
    out.update(ok=True, term=f'({penv}, {fenv_term(intern)}, {tree}, {exp})', root=root)
    return out


# ---------------------------------------------------------------- generator

def gen_eval_doc(rng, unsafe=0.0, required=0.0, named=False, cycles=True):
    """a mapping document with call/bind nodes and references over its own paths"""
    prof = gen.Profile(p_seq=0.25, p_map=0.4, max_depth=3, dyn=['call', 'bind', 'callstr', 'call'], p_dyn=0.25, p_intkey=0.0)
    doc = gen.gen_doc(rng, prof, root_tag_ok=False)
    if named:
        doc = retarget(doc, rng)
    paths = [p for p in gen.existing_paths(doc) if p]
    idp = [p for p in paths if all(isinstance(c, int) or str(c).isidentifier() for c in p) and not isinstance(p[0], int)]

    def place(n, depth, here):
        r = rng.random()
        if n[0] == 'sc' and n[1] is None and idp and r < 0.35:
            if rng.random() < 0.88:
                tp = rng.choice(idp)
                if not cycles and (tp == here or tp[:len(here)] == here or here[:len(tp)] == tp):
                    tp = rng.choice(idp)
            else:
                tp = rng.choice([('zz',), ('a', 'zz'), ('b', 9)])
            return ('sc', rng.choice(['!xref', '!xref', '!ref']), '"' + gen.render_path(tp) + '"')
        if n[0] == 'sc' and n[1] is None and r > 1 - required:
            return ('sc', '!required', '')
        tag = n[1]
        if tag is None and rng.random() < unsafe and not (n[0] == 'sc' and n[2] == ''):
            tag = '!unsafe'
        if n[0] == 'map':
            return ('map', tag, [(k, place(c, depth + 1, here + (k,))) for k, c in n[2]])
        if n[0] == 'seq':
            return ('seq', tag, [place(c, depth + 1, here + (i,)) for i, c in enumerate(n[2])])
        return ('sc', tag, n[2])
    return place(doc, 0, ())


def retarget(n, rng):
    """use targets with named parameters and integer keys with gaps"""
    if n[0] == 'map':
        tag = n[1]
        items = [(k, retarget(c, rng)) for k, c in n[2]]
        if tag and (tag.startswith('!call:') or tag.startswith('!bind:')):
            f = rng.choice(['vmod.h', 'vmod.k', 'vmod.f'])
            tag = tag.split(':')[0] + ':' + f
            keys = rng.sample([0, 1, 2, 3, 'a', 'b', 'c', 'x', 'q'], rng.randint(0, 3))
            items = [(k, ('sc', None, str(rng.randint(1, 9)))) for k in keys]
        return ('map', tag, items)
    if n[0] == 'seq':
        return ('seq', n[1], [retarget(c, rng) for c in n[2]])
    return n


def gen_eval_history(rng, **kw):
    docs = [gen_eval_doc(rng, **kw)]
    if rng.random() < 0.4:
        docs.append(gen.related_doc(rng, gen.Profile(p_tag=0.1, tags=['!del', '!force'], dyn=['call'], p_dyn=0.1), docs[0]))
    return docs
