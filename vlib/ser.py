"""Serialise real awesomeyaml node objects (and plain Python data) into Coq terms of Model/Node.v.

The serialiser reads raw attributes only (never native_value / represent), so that it observes what the
implementation actually holds. Strings are interned injectively per Interner (0 = empty string / None)."""
import math


class Interner:
    def __init__(self):
        self.tab = {'': 0}
        self.rev = {0: ''}

    def __call__(self, s):
        if s is None:
            return 0
        s = str(s)
        if s not in self.tab:
            n = len(self.tab)
            self.tab[s] = n
            self.rev[n] = s
        return self.tab[s]


def z(i):
    i = int(i)
    return f'({i})' if i < 0 else str(i)


def ob(x):
    if x is None:
        return 'None'
    return '(Some true)' if x else '(Some false)'


def oz(x):
    return 'None' if x is None else f'(Some {z(x)})'


def coq_list(items):
    return '[' + '; '.join(items) + ']'


class Inconsistent(Exception):
    """the two stores of a container disagree (C17 invariant broken in the implementation)"""


def key_term(k, intern):
    # keys are ConfigScalar nodes or plain values
    if isinstance(k, bool) or type(k).__name__ == 'ConfigScalar(bool)':
        raise ValueError('bool key')
    if isinstance(k, int):
        return f'KI {z(int(k))}'
    if isinstance(k, str):
        return f'KS {intern(str.__str__(k))}'
    if isinstance(k, float):
        return f'KS {intern("float:" + repr(float(k)))}'
    raise ValueError(f'unsupported key type {type(k)}')


def scalar_term(v, intern):
    from awesomeyaml.nodes.scalar import ConfigNone, configbool
    if v is None or isinstance(v, ConfigNone):
        return 'SNone'
    if isinstance(v, (bool, configbool)):
        return f'SBool {"true" if bool(v) else "false"}'
    if isinstance(v, int):
        return f'SInt {z(int(v))}'
    if isinstance(v, float):
        f = float(v)
        if f == 0.0:
            return 'SFloat 0'
        return f'SFloat {intern("float:" + repr(f))}'
    if isinstance(v, str):
        return f'SStr {intern(str.__str__(v))}'
    raise ValueError(f'unsupported scalar {type(v)}')


def meta_term(md, intern):
    return coq_list(f'({intern(repr(k))}, {intern(repr(v))})' for k, v in md.items())


def flags_term(n, intern, with_src=True):
    d = n.__dict__
    return ('(mkF {} {} {} {} {} {} {} {} {} {})'.format(
        oz(d.get('_priority')), ob(d.get('_delete')), ob(d.get('_allow_new')), ob(d.get('_safe')),
        ob(d.get('_implicit_delete')), ob(d.get('_implicit_allow_new')), ob(d.get('_implicit_safe')),
        ob(d.get('_default_safe')), meta_term(d.get('_metadata') or {}, intern),
        intern(d.get('_source_file')) if with_src else 0))


_KINDS = None


def kinds():
    global _KINDS
    if _KINDS is None:
        from awesomeyaml.nodes.dict import ConfigDict
        from awesomeyaml.nodes.list import ConfigList
        from awesomeyaml.nodes.call import CallNode
        from awesomeyaml.nodes.bind import BindNode
        from awesomeyaml.nodes.append import AppendNode
        from awesomeyaml.nodes.extend import ExtendNode
        from awesomeyaml.nodes.path import PathNode
        from awesomeyaml.nodes.stream import StreamNode
        from awesomeyaml.nodes.recurse import RecurseNode
        from awesomeyaml.nodes.tuple import ConfigTuple
        from awesomeyaml.nodes.xref import XRefNode
        from awesomeyaml.nodes.eval import EvalNode
        from awesomeyaml.nodes.fstr import FStrNode
        from awesomeyaml.nodes.prev import PrevNode
        from awesomeyaml.nodes.required import RequiredNode
        from awesomeyaml.nodes.clear import ClearNode
        from awesomeyaml.nodes.include import IncludeNode
        import importlib
        ImportNode = importlib.import_module('awesomeyaml.nodes.import').ImportNode
        _KINDS = {
            'comp': {ConfigDict: 'CDict', ConfigList: 'CList', CallNode: 'CCall', BindNode: 'CBind', AppendNode: 'CAppend',
                     ExtendNode: 'CExtend', PathNode: 'CPath', StreamNode: 'CStream', RecurseNode: 'CRec', ConfigTuple: 'CTuple'},
            'leaf': {XRefNode: 'LXRef', EvalNode: 'LEval', FStrNode: 'LFStr', ImportNode: 'LImport', PrevNode: 'LPrev',
                     RequiredNode: 'LRequired', ClearNode: 'LClear', IncludeNode: 'LInclude'},
        }
    return _KINDS


def node_term(n, intern, stats=None, with_src=True, check_consistent=True):
    """Coq term of a real node. Raises Inconsistent if builtin storage and _children disagree."""
    from awesomeyaml.nodes.composed import ComposedNode
    from awesomeyaml.nodes.node import ConfigNode
    K = kinds()
    if not isinstance(n, ConfigNode):
        raise ValueError(f'not a node: {type(n)} {n!r}')
    f = flags_term(n, intern, with_src)
    t = type(n)
    if isinstance(n, ComposedNode):
        kind = K['comp'].get(t)
        if kind is None:
            raise ValueError(f'unknown composed type {t}')
        ch = n._children
        if check_consistent:
            if isinstance(n, list):
                st = list.__iter__(n)
                st = list(st)
                if len(st) != len(ch) or any(a is not b for a, b in zip(st, ch.values())) or list(ch.keys()) != list(range(len(st))):
                    raise Inconsistent(f'list storage {len(st)} vs children keys {list(ch.keys())}')
            elif isinstance(n, dict):
                st = list(dict.items(n))
                if len(st) != len(ch) or any(a[1] is not b[1] or a[0] != b[0] for a, b in zip(st, ch.items())):
                    raise Inconsistent(f'dict storage keys {[k for k, _ in st]} vs children keys {list(ch.keys())}')
        x = 'SNone'
        if kind in ('CCall', 'CBind'):
            x = scalar_term(str(n._func), intern) if isinstance(n._func, str) else f'SStr {intern(repr(n._func))}'
        elif kind == 'CPath':
            x = f'SStr {intern(getattr(n, "_ref_point", None) if hasattr(n, "_ref_point") else getattr(n, "ref_point", None))}'
        items = coq_list(f'({key_term(k, intern)}, {node_term(c, intern, stats, with_src, check_consistent)})' for k, c in ch.items())
        if stats is not None:
            stats['comp'] = stats.get('comp', 0) + 1
        return f'(Comp {kind} {f} ({x}) {items})'
    kind = K['leaf'].get(t)
    if kind is None:
        from awesomeyaml.nodes.scalar import ConfigScalarMarker
        if isinstance(n, ConfigScalarMarker):
            kind = 'LScalar'
        else:
            raise ValueError(f'unknown leaf type {t}')
    if kind in ('LRequired', 'LClear', 'LInclude'):
        v = 'SNone'
    else:
        v = scalar_term(n._get_native_value() if kind == 'LScalar' else str.__str__(n), intern)
    if stats is not None:
        stats['leaf'] = stats.get('leaf', 0) + 1
    return f'(Leaf {kind} {f} ({v}))'


def plain_term(v, intern):
    """Coq term (Model.Node.plain) of plain Python data"""
    if isinstance(v, dict):
        return '(PD ' + coq_list(f'({key_term(k, intern)}, {plain_term(c, intern)})' for k, c in v.items()) + ')'
    if isinstance(v, (list, tuple)):
        return '(PL ' + coq_list(plain_term(c, intern) for c in v) + ')'
    return f'(PS ({scalar_term(v, intern)}))'


def path_term(p, intern):
    return coq_list(key_term(c, intern) for c in p)


def penv_term(intern):
    """parsed path for every interned string that is a valid NodePath"""
    from awesomeyaml.nodes.node_path import NodePath
    items = []
    done = set()
    while True:
        todo = [(s, i) for s, i in list(intern.tab.items()) if i not in done]
        if not todo:
            break
        for s, i in todo:
            done.add(i)
            try:
                p = list(NodePath.split_path(s))
            except Exception:
                continue
            items.append(f'({i}, {path_term(p, intern)})')
    return coq_list(items)
