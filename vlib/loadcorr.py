"""T3 for the loader: awesomeyaml.yaml.parse (through Builder.add_source) vs Model.Loader.load_doc on tagged text."""
import re
from . import ser, gen, oracles, mergecorr

HEADER = 'From AY Require Import Model.Loader Model.Eq.\nOpen Scope Z_scope.\n'
CHECK = 'fun c : lctx * ynode * node => node_eqb (load_doc (fst (fst c)) (snd (fst c))) (snd c)'


def tagkw_term(tag, intern):
    prio = dele = new = safe = 'None'
    meta = '[]'
    if tag:
        if tag == '!force':
            prio = '(Some 1)'
        elif tag == '!weak':
            prio = '(Some (-1))'
        elif tag == '!del':
            dele = '(Some true)'
        elif tag == '!merge':
            dele = '(Some false)'
        elif tag == '!new':
            new = '(Some true)'
        elif tag == '!notnew':
            new = '(Some false)'
        elif tag == '!unsafe':
            safe = '(Some false)'
        elif tag.startswith('!metadata{{'):
            d = eval('{' + tag[len('!metadata{{'):-2] + '}')
            if 'priority' in d:
                prio = ser.oz(d.pop('priority'))
            if 'delete' in d:
                dele = ser.ob(d.pop('delete'))
            if 'allow_new' in d:
                new = ser.ob(d.pop('allow_new'))
            if 'safe' in d:
                safe = ser.ob(d.pop('safe'))
            meta = ser.meta_term(d, intern)
        else:
            raise ValueError('not a merge-control tag: ' + tag)
    return f'(mkT {prio} {dele} {new} {safe} {meta})'


def ynode_term(n, intern):
    t = tagkw_term(n[1], intern)
    if n[0] == 'sc':
        return f'(YS {t} ({ser.scalar_term(oracles.scalar_value(n[2]), intern)}))'
    if n[0] == 'seq':
        return f'(YQ {t} {ser.coq_list(ynode_term(c, intern) for c in n[2])})'
    return f'(YM {t} ' + ser.coq_list(f'({ser.key_term(oracles.scalar_value(gen.render_key(k)) if not isinstance(k, int) else k, intern)}, {ynode_term(c, intern)})' for k, c in n[2]) + ')'


def run_case(doc, safe=True):
    intern = ser.Interner()
    text = gen.render(doc)
    try:
        b = mergecorr.parse_stages([text], [safe])
    except Exception as e:
        return dict(ok=False, why=type(e).__name__ + str(e)[:100], text=text)
    if len(b.stages) != 1:
        return dict(ok=False, why='stages', text=text)
    try:
        st = ser.node_term(b.stages[0], intern)
        y = ynode_term(doc, intern)
    except (ValueError, ser.Inconsistent) as e:
        return dict(ok=False, why=str(e)[:100], text=text, inconsistent=isinstance(e, ser.Inconsistent))
    ctx = f'(mkLC (Some {"true" if safe else "false"}) {intern("<s0>")})'
    return dict(ok=True, text=text, term=f'({ctx}, {y}, {st})')


LOAD_PROFILE = gen.Profile(p_tag=0.35, tags=['!force', '!weak', '!del', '!merge', '!new', '!notnew', '!unsafe', '!force', '!del'], meta=0.15, underscore=True, p_intkey=0.15, max_depth=4)
