"""Rebuild a generator document tree from its rendered text (for replays): uses PyYAML's composer, keeps tags."""
import yaml, re


def parse_doc(text):
    # {{...}} metadata would not survive yaml.compose: protect it
    prot = {}
    def sub(m):
        k = f'__MD{len(prot)}__'
        prot[k] = m.group(0)
        return k
    t = re.sub(r'\{\{.*?\}\}', sub, text)
    node = yaml.compose(t, Loader=yaml.SafeLoader)

    def conv(n):
        tag = n.tag if n.tag.startswith('!') else None
        if tag:
            for k, v in prot.items():
                tag = tag.replace(k, v)
        if isinstance(n, yaml.MappingNode):
            items = []
            for kn, vn in n.value:
                k = yaml.SafeLoader('').construct_object(kn) if False else kn.value
                if kn.tag.endswith(':int'):
                    k = int(kn.value)
                items.append((k, conv(vn)))
            return ('map', tag, items)
        if isinstance(n, yaml.SequenceNode):
            return ('seq', tag, [conv(c) for c in n.value])
        v = n.value
        if n.style in ("'", '"'):
            v = "'" + v.replace("'", "''") + "'" if n.style == "'" else '"' + v + '"'
        return ('sc', tag, v)
    return conv(node)
